package main

// C06 — architecture and version restrictions. The functions are interpreted
// abstractly (go/ssa) on a finite universe that is exhaustive by data
// independence: their string inputs are only ever compared for equality, so
// behaviour depends only on the equality pattern between inputs and the
// literals in the code.

import (
	"fmt"
	"go/constant"
	"go/token"
	"go/types"
	"sort"
	"strings"

	"golang.org/x/tools/go/ssa"
)

func init() { register("C06", checkC06) }

func structOf(n *types.Named) *types.Struct { s, _ := n.Underlying().(*types.Struct); return s }

func fieldIndex(s *types.Struct, name string) int {
	for i := 0; i < s.NumFields(); i++ {
		if s.Field(i).Name() == name {
			return i
		}
	}
	return -1
}

// mkStruct builds a struct value of named type n with the given fields set.
func mkStruct(n *types.Named, fields map[string]Val) *StructV {
	s := structOf(n)
	v := zeroVal(n).(*StructV)
	for k, val := range fields {
		i := fieldIndex(s, k)
		if i < 0 {
			panic("no field " + k + " in " + n.String())
		}
		v.F[i] = val
	}
	return v
}

// stringLiterals collects the string constants used in fns.
func stringLiterals(fns []*ssa.Function) []string {
	set := map[string]bool{}
	for _, f := range fns {
		for _, b := range f.Blocks {
			for _, ins := range b.Instrs {
				for _, op := range ins.Operands(nil) {
					if c, ok := (*op).(*ssa.Const); ok && c.Value != nil && c.Value.Kind() == constant.String {
						set[constant.StringVal(c.Value)] = true
					}
				}
			}
		}
	}
	var out []string
	for k := range set {
		out = append(out, k)
	}
	sort.Strings(out)
	return out
}

// equalityOnly verifies the data-independence precondition: string values in
// fns are only compared with ==/!=, copied, or passed among fns.
func equalityOnly(fns []*ssa.Function) (bool, string) {
	inSet := map[*ssa.Function]bool{}
	for _, f := range fns {
		inSet[f] = true
	}
	for _, f := range fns {
		for _, b := range f.Blocks {
			for _, ins := range b.Instrs {
				for _, op := range ins.Operands(nil) {
					v := *op
					if v == nil || !isStringT(v.Type()) {
						continue
					}
					if _, isConst := v.(*ssa.Const); isConst {
						continue
					}
					switch x := ins.(type) {
					case *ssa.BinOp:
						if x.Op == token.EQL || x.Op == token.NEQ {
							continue
						}
						return false, fmt.Sprintf("%s applies %s to a string", fname(f), x.Op)
					case *ssa.Phi, *ssa.Store, *ssa.Return, *ssa.MakeInterface:
						continue
					case *ssa.Call:
						if callee := x.Call.StaticCallee(); callee != nil && inSet[callee] {
							continue
						}
						return false, fmt.Sprintf("%s passes a string to %s", fname(f), x.Call.Value.Name())
					default:
						return false, fmt.Sprintf("%s uses a string in %T", fname(f), ins)
					}
				}
			}
		}
	}
	return true, ""
}

func checkC06(p *Prog, rp *Report) {
	defer stateRule(p, rp, "C06-STATE", p.Method("dependency", "Arch", "Is"), p.Method("dependency", "ArchSet", "Matches"), p.Method("dependency", "Dependency", "GetPossibilities"), p.Method("dependency", "Dependency", "GetAllPossibilities"), p.Method("dependency", "Dependency", "GetSubstvars"), p.Method("dependency", "VersionRelation", "SatisfiedBy"))
	rp.Level = "proof"
	rp.Explanation = "Complete decision tables of Arch.Is / IsWildcard (C06-IS, both operand orders), ArchSet.Matches (C06-SET), Dependency.GetPossibilities / GetAllPossibilities / GetSubstvars (C06-SELECT) and VersionRelation.SatisfiedBy (C06-SAT) obtained by abstract interpretation of their SSA on a universe that is exhaustive by data independence (strings only compared for equality: universe = literals in the code + generic names), with callees replaced by oracles (el.Is, Architectures.Matches, version.Parse, version.Compare) whose every outcome is enumerated; loops are range loops whose only loop-carried state is the index and an append-only accumulator (checked), so the tables for lists of length 0..3 determine all lengths."
	rp.NotDecided = "nothing beyond the trusted base (data-independence argument; induction over list length from the loop-shape check)."
	rp.Trusted = []string{"go/types, go/ssa", "data independence (Wolper): equality-only code is determined by the equality pattern of its inputs", "the specification tables in c06.go transcribe the property statement"}
	thorough := rp.Tier == "thorough"

	archT := p.Named("dependency", "Arch")
	if archT == nil {
		rp.Errorf("dependency.Arch not found")
		return
	}
	c06Is(p, rp, archT, thorough)
	c06Names(p, rp)
	c06Set(p, rp, archT)
	c06Select(p, rp, archT)
	c06Sat(p, rp)
}

// ---- C06-IS -------------------------------------------------------------------

type triple [3]string // ABI, OS, CPU

func c06Is(p *Prog, rp *Report, archT *types.Named, thorough bool) {
	r := rp.Rule("C06-IS", "Arch.Is on every (concrete, pattern) pair of the property's domain, both operand orders", 2)
	is := p.Method("dependency", "Arch", "Is")
	if is == nil {
		r.bad("dependency.Arch.Is", "", "method not found", nil)
		return
	}
	pos := p.Pos(is.Pos())
	fns := reachableRepoFuncs(is)
	if ok, why := equalityOnly(fns); !ok {
		r.undecided("dependency.Arch.Is", pos, "data-independence precondition fails: "+why)
		return
	}
	generic := []string{"x", "y", "z"}
	if thorough {
		generic = []string{"x", "y", "z", "u", "w"}
	}
	// literals of the code other than any/all are added as concrete names too:
	// a special-cased name would otherwise escape the universe.
	extra := []string{}
	for _, l := range stringLiterals(fns) {
		if l != "any" && l != "all" && l != "" {
			extra = append(extra, l)
		}
	}
	names := append(append([]string{}, generic...), extra...)
	var concrete, pattern []triple
	concrete = append(concrete, triple{"all", "all", "all"})
	pattern = append(pattern, triple{"all", "all", "all"})
	for _, a := range names {
		for _, b := range names {
			for _, c := range names {
				concrete = append(concrete, triple{a, b, c})
			}
		}
	}
	pn := append([]string{"any"}, names...)
	for _, a := range pn {
		for _, b := range pn {
			for _, c := range pn {
				pattern = append(pattern, triple{a, b, c})
			}
		}
	}
	spec := func(c, pt triple) bool {
		allT := triple{"all", "all", "all"}
		if c == allT || pt == allT {
			return c == pt
		}
		for i := 0; i < 3; i++ {
			if pt[i] != "any" && pt[i] != c[i] {
				return false
			}
		}
		return true
	}
	m := NewMachine(p, nil)
	eval := func(a, b triple) (bool, string) {
		st := freshState(m, "dependency", "version")
		ia := st.alloc(archT, mkStruct(archT, map[string]Val{"ABI": a[0], "OS": a[1], "CPU": a[2]}))
		ib := st.alloc(archT, mkStruct(archT, map[string]Val{"ABI": b[0], "OS": b[1], "CPU": b[2]}))
		st.push(is, []Val{Ptr{Obj: ia}, Ptr{Obj: ib}}, nil)
		out := m.Run(st)
		if len(out) != 1 || out[0].Status != stRet {
			return false, retDesc(out)
		}
		rb, ok := out[0].Ret.(bool)
		if !ok {
			return false, "non-boolean result"
		}
		// the question must not change the operands
		for k, id := range []int{ia, ib} {
			sv, _ := out[0].Heap[id].V.(*StructV)
			t := []triple{a, b}[k]
			if sv == nil || sv.F[fieldIndex(structOf(archT), "ABI")] != t[0] || sv.F[fieldIndex(structOf(archT), "OS")] != t[1] || sv.F[fieldIndex(structOf(archT), "CPU")] != t[2] {
				return false, fmt.Sprintf("undecided-purity: Is modifies its operand %v", t)
			}
		}
		return rb, ""
	}
	rows, bad := 0, 0
	var first string
	for _, c := range concrete {
		for _, pt := range pattern {
			want := spec(c, pt)
			for dir := 0; dir < 2; dir++ {
				var got bool
				var err string
				if dir == 0 {
					got, err = eval(c, pt)
				} else {
					got, err = eval(pt, c)
				}
				rows++
				if strings.HasPrefix(err, "undecided-purity: ") {
					r.bad("dependency.Arch.Is", pos, fmt.Sprintf("%v vs %v: %s: a later question about the same value gets a different answer", c, pt, strings.TrimPrefix(err, "undecided-purity: ")), nil)
					return
				}
				if err != "" {
					r.undecided("dependency.Arch.Is", pos, fmt.Sprintf("%v vs %v: %s", c, pt, err))
					return
				}
				if got != want {
					bad++
					if first == "" {
						recv, arg := c, pt
						if dir == 1 {
							recv, arg = pt, c
						}
						first = fmt.Sprintf("(%s).Is(%s) = %v, Debian semantics say %v", strings.Join(recv[:], "-"), strings.Join(arg[:], "-"), got, want)
					}
				}
			}
		}
	}
	rp.Extra["is_rows"] = rows
	if bad > 0 {
		r.bad("dependency.Arch.Is", pos, fmt.Sprintf("%d of %d rows wrong: %s", bad, rows, first), nil)
	} else {
		r.ok("dependency.Arch.Is", pos, fmt.Sprintf("%d rows = %d concrete x %d patterns x 2 operand orders (universe any, all, %v) match the specification", rows, len(concrete), len(pattern), names))
	}
	// IsWildcard table
	iw := p.Method("dependency", "Arch", "IsWildcard")
	if iw == nil {
		r.ok("dependency.Arch.IsWildcard", pos, "no separate IsWildcard method; covered by the Is table")
		return
	}
	wbad := 0
	wfirst := ""
	all := append(append([]triple{}, pattern...), triple{"all", "any", "any"}, triple{"any", "all", "all"})
	for _, t := range all {
		st := freshState(m, "dependency", "version")
		ia := st.alloc(archT, mkStruct(archT, map[string]Val{"ABI": t[0], "OS": t[1], "CPU": t[2]}))
		st.push(iw, []Val{Ptr{Obj: ia}}, nil)
		out := m.Run(st)
		if len(out) != 1 || out[0].Status != stRet {
			r.undecided("dependency.Arch.IsWildcard", p.Pos(iw.Pos()), retDesc(out))
			return
		}
		want := t != triple{"all", "all", "all"} && t[2] != "all" && (t[0] == "any" || t[1] == "any" || t[2] == "any")
		if out[0].Ret != want {
			wbad++
			if wfirst == "" {
				wfirst = fmt.Sprintf("IsWildcard(%s) = %v, want %v", strings.Join(t[:], "-"), out[0].Ret, want)
			}
		}
	}
	if wbad > 0 {
		r.bad("dependency.Arch.IsWildcard", p.Pos(iw.Pos()), wfirst, nil)
	} else {
		r.ok("dependency.Arch.IsWildcard", p.Pos(iw.Pos()), fmt.Sprintf("%d triples: wildcard iff some component is any (the atomic all is not)", len(all)))
	}
}

// ---- C06-NAMES ------------------------------------------------------------------

// c06Names: the property's pairs are architectures "denoted by Debian names". A wildcard name of one part (any), of
// two parts with an `any` in it (<os>-any, any-<cpu>) or of three parts leaves open every component it does not name,
// the ABI included: parsed with ParseArch and asked with Is (both operand orders), it matches exactly the concrete
// three-part architectures (of whatever ABI) that agree with it in the components it names.
func c06Names(p *Prog, rp *Report) {
	r := rp.Rule("C06-NAMES", "wildcard names (any, <os>-any, any-<cpu>, three-part) parsed by ParseArch match concrete architectures of every ABI", 1)
	pa := p.Func("dependency", "ParseArch")
	is := p.Method("dependency", "Arch", "Is")
	if pa == nil || is == nil {
		r.bad("dependency.ParseArch", "", "ParseArch / Arch.Is not found", nil)
		return
	}
	pos := p.Pos(pa.Pos())
	wild := []string{"any", "linux-any", "kfreebsd-any", "any-amd64", "any-arm64", "any-any", "any-linux-any", "any-any-arm64", "musl-any-any", "musl-linux-any", "gnu-any-amd64", "any-any-any"}
	conc := []string{"musl-linux-arm64", "uclibc-linux-armel", "gnu-linux-amd64", "gnu-kfreebsd-amd64", "bsd-openbsd-i386", "gnu-linux-arm64", "musl-kfreebsd-amd64", "amd64", "arm64"}
	denote := func(n string) triple {
		parts := strings.Split(n, "-")
		switch len(parts) {
		case 1:
			if n == "any" || n == "all" {
				return triple{n, n, n}
			}
			return triple{"gnu", "linux", n}
		case 2:
			return triple{"any", parts[0], parts[1]}
		}
		return triple{parts[0], parts[1], parts[2]}
	}
	m := NewMachine(p, nil)
	var problems []string
	rows := 0
	parse := func(st *State, n string) (Val, string) {
		st.Status = stRun
		st.Frames = nil
		st.push(pa, []Val{n}, nil)
		out := m.Run(st)
		if len(out) != 1 || out[0].Status != stRet {
			return nil, "undecided: ParseArch(" + n + "): " + retDesc(out)
		}
		tv, _ := st.Ret.(*TupleV)
		if tv == nil || len(tv.E) != 2 {
			return nil, "undecided: unexpected result shape"
		}
		if _, errNil := tv.E[1].(nilV); !errNil {
			return nil, fmt.Sprintf("ParseArch(%q) fails", n)
		}
		return tv.E[0], ""
	}
	for _, w := range wild {
		for _, c := range conc {
			wt, ct := denote(w), denote(c)
			want := true
			for i := 0; i < 3; i++ {
				if wt[i] != "any" && wt[i] != ct[i] {
					want = false
				}
			}
			for dir := 0; dir < 2; dir++ {
				st := freshState(m, "dependency", "version")
				wv, why := parse(st, w)
				if why != "" {
					problems = append(problems, why)
					break
				}
				cv, why := parse(st, c)
				if why != "" {
					problems = append(problems, why)
					break
				}
				st.Status = stRun
				st.Frames = nil
				if dir == 0 {
					st.push(is, []Val{cv, wv}, nil)
				} else {
					st.push(is, []Val{wv, cv}, nil)
				}
				out := m.Run(st)
				if len(out) != 1 || out[0].Status != stRet {
					problems = append(problems, "undecided: Is: "+retDesc(out))
					break
				}
				rows++
				if got, _ := st.Ret.(bool); got != want {
					a, b := c, w
					if dir == 1 {
						a, b = w, c
					}
					problems = append(problems, fmt.Sprintf("ParseArch(%q).Is(ParseArch(%q)) = %v, want %v: the name %s denotes %s, which %s %s", a, b, got, want, w, strings.Join(wt[:], "-"), map[bool]string{true: "covers", false: "does not cover"}[want], strings.Join(ct[:], "-")))
				}
			}
			if len(problems) > 0 && strings.HasPrefix(problems[len(problems)-1], "undecided") {
				break
			}
		}
	}
	fillProblems(r, "dependency.ParseArch", pos, problems, fmt.Sprintf("%d rows: %d wildcard names x %d concrete names (ABIs gnu, musl, uclibc, bsd), both operand orders", rows, len(wild), len(conc)))
}

// ---- loops --------------------------------------------------------------------

// loopCarried lists, for every loop header of fn, the phis other than
// (a) the hidden range index and (b) accumulators only updated by append.
func loopStateOK(fn *ssa.Function) (bool, string) {
	for _, b := range fn.Blocks {
		for _, ins := range b.Instrs {
			ph, ok := ins.(*ssa.Phi)
			if !ok {
				break
			}
			// is this a loop header phi? (has an edge from a block dominated by b)
			loop := false
			for i, pred := range b.Preds {
				if b.Dominates(pred) {
					loop = true
					e := ph.Edges[i]
					if okUpdate(ph, e, map[ssa.Value]bool{}) {
						continue
					}
					return false, fmt.Sprintf("%s carries %s (%s) around a loop in a way that is neither an index increment nor an append", fname(fn), ph.Name(), ph.Comment)
				}
			}
			_ = loop
		}
	}
	return true, ""
}

func okUpdate(ph *ssa.Phi, e ssa.Value, seen map[ssa.Value]bool) bool {
	if e == ph {
		return true
	}
	if seen[e] {
		return true
	}
	seen[e] = true
	switch x := e.(type) {
	case *ssa.BinOp:
		if x.Op == token.ADD && x.X == ph {
			if c, ok := x.Y.(*ssa.Const); ok && c.Value != nil {
				if n, _ := constant.Int64Val(c.Value); n == 1 {
					return true
				}
			}
		}
	case *ssa.Call:
		if b, ok := x.Call.Value.(*ssa.Builtin); ok && b.Name() == "append" {
			return okUpdate(ph, x.Call.Args[0], seen)
		}
	case *ssa.Phi:
		for _, e2 := range x.Edges {
			if !okUpdate(ph, e2, seen) {
				return false
			}
		}
		return true
	}
	return false
}

// ---- C06-SET --------------------------------------------------------------------

func c06Set(p *Prog, rp *Report, archT *types.Named) {
	r := rp.Rule("C06-SET", "ArchSet.Matches: empty list admits everything; otherwise (some entry matches) != negated", 1)
	fn := p.Method("dependency", "ArchSet", "Matches")
	setT := p.Named("dependency", "ArchSet")
	is := p.Method("dependency", "Arch", "Is")
	if fn == nil || setT == nil || is == nil {
		r.bad("dependency.ArchSet.Matches", "", "method not found", nil)
		return
	}
	pos := p.Pos(fn.Pos())
	lenNote := "; loops carry only indexes and a result, so the table determines all list lengths"
	if ok, why := loopStateOK(fn); !ok {
		lenNote = " (bounded: lists of up to 3 entries only; no induction to longer lists because " + why + ")"
	}
	// Two modes. Oracle mode: Arch.Is is played (every outcome enumerated; exhaustive by data independence). When
	// Matches does not call Is at all (its logic inlined), the table is run with concrete architectures instead,
	// whose real Is answers (decided by C06-IS) form the same match patterns.
	matching := []map[string]Val{{"ABI": "gnu", "OS": "linux", "CPU": "amd64"}, {"ABI": "any", "OS": "linux", "CPU": "amd64"}, {"ABI": "any", "OS": "any", "CPU": "amd64"}}
	others := []map[string]Val{{"ABI": "gnu", "OS": "linux", "CPU": "i386"}, {"ABI": "any", "OS": "kfreebsd", "CPU": "any"}, {"ABI": "musl", "OS": "linux", "CPU": "amd64"}}
	matching2 := []map[string]Val{{"ABI": "gnu", "OS": "any", "CPU": "any"}, {"ABI": "any", "OS": "linux", "CPU": "any"}, {"ABI": "gnu", "OS": "linux", "CPU": "any"}}
	others2 := []map[string]Val{{"ABI": "gnu", "OS": "linux", "CPU": "arm64"}, {"ABI": "any", "OS": "hurd", "CPU": "any"}, {"ABI": "all", "OS": "all", "CPU": "all"}}
	oracleCalls := 0
	var table func(concrete bool) (int, int, string, string)
	table = func(concrete bool) (rows, bad int, first, undec string) {
		for n := 0; n <= 3; n++ {
			for mask := 0; mask < 1<<n; mask++ {
				for _, not := range []bool{false, true} {
					m := NewMachine(p, nil)
					st := freshState(m, "dependency", "version")
					arr := &ArrayV{}
					for i := 0; i < n; i++ {
						switch {
						case !concrete:
							arr.E = append(arr.E, mkStruct(archT, map[string]Val{"ABI": fmt.Sprintf("e%d", i), "OS": "o", "CPU": "c"}))
						case mask&(1<<i) != 0:
							arr.E = append(arr.E, mkStruct(archT, matching[i]))
						default:
							arr.E = append(arr.E, mkStruct(archT, others[i]))
						}
					}
					var sl Val = nilV{}
					if n > 0 {
						aid := st.alloc(types.NewArray(archT, int64(n)), arr)
						sl = SliceV{Obj: aid, Len_: n, Cap: n}
					} else {
						aid := st.alloc(types.NewArray(archT, 0), arr)
						sl = SliceV{Obj: aid, Len_: 0, Cap: 0}
					}
					sid := st.alloc(setT, mkStruct(setT, map[string]Val{"Not": not, "Architectures": sl}))
					target := map[string]Val{"ABI": "target", "OS": "o", "CPU": "c"}
					if concrete {
						target = map[string]Val{"ABI": "gnu", "OS": "linux", "CPU": "amd64"}
					}
					oid := st.alloc(archT, mkStruct(archT, target))
					mask := mask
					badArg := ""
					if !concrete {
						m.Hooks[is.String()] = func(m *Machine, st *State, call *ssa.CallCommon, args []Val) ([]Val, bool) {
							oracleCalls++
							recv, ok1 := args[0].(Ptr)
							other, ok2 := args[1].(Ptr)
							if !ok1 || !ok2 {
								badArg = "Is called with non-pointer"
								return []Val{false}, true
							}
							rv, _ := st.load(recv)
							ov, _ := st.load(other)
							rs, _ := rv.(*StructV)
							os, _ := ov.(*StructV)
							if rs == nil || os == nil {
								badArg = "Is called on unknown values"
								return []Val{false}, true
							}
							tagR, _ := rs.F[fieldIndex(structOf(archT), "ABI")].(string)
							tagO, _ := os.F[fieldIndex(structOf(archT), "ABI")].(string)
							// either operand order is fine (Is is symmetric by C06-IS)
							tag := tagR
							if tagR == "target" {
								tag = tagO
							} else if tagO != "target" {
								badArg = "Is compares an entry with something other than the queried architecture"
							}
							var i int
							if strings.HasPrefix(tag, "f") {
								// the entries put in place after the first call: the opposite pattern
								fmt.Sscanf(tag, "f%d", &i)
								return []Val{mask&(1<<i) == 0}, true
							}
							fmt.Sscanf(tag, "e%d", &i)
							return []Val{mask&(1<<i) != 0}, true
						}
					}
					setBefore, argBefore := deepRender(st, Ptr{Obj: sid}, 0), deepRender(st, Ptr{Obj: oid}, 0)
					st.push(fn, []Val{Ptr{Obj: sid}, Ptr{Obj: oid}}, nil)
					out := m.Run(st)
					rows++
					if len(out) != 1 || out[0].Status != stRet || badArg != "" {
						return rows, bad, first, fmt.Sprintf("n=%d mask=%b not=%v: %s %s", n, mask, not, retDesc(out), badArg)
					}
					if a1, a2 := deepRender(out[0], Ptr{Obj: sid}, 0), deepRender(out[0], Ptr{Obj: oid}, 0); a1 != setBefore || a2 != argBefore {
						bad++
						if first == "" {
							first = fmt.Sprintf("list of %d entries, negated=%v: Matches changes what it is asked about (the set %s became %s): a question is not a query any more", n, not, clip(setBefore, 120), clip(a1, 120))
						}
					}
					want := n == 0 || ((mask != 0) != not)
					if out[0].Ret != want {
						bad++
						if first == "" {
							first = fmt.Sprintf("list of %d entries, entries matching: %0*b (entry 0 rightmost), negated=%v: Matches = %v, want %v", n, n, mask, not, out[0].Ret, want)
						}
					}
					// the answer depends on the set as it is now: replace the entries in place (same set, same length, same
					// question) by entries with the opposite match pattern and ask again
					if n > 0 {
						s2 := out[0]
						if sv, ok := s2.Heap[sid].V.(*StructV); ok {
							if cur, isSl := sv.F[fieldIndex(structOf(setT), "Architectures")].(SliceV); isSl && !cur.Abs {
								for i := 0; i < n; i++ {
									switch {
									case !concrete:
										s2.store(Ptr{Obj: cur.Obj, Path: pathAppend(cur.Path, cur.Lo+i)}, mkStruct(archT, map[string]Val{"ABI": fmt.Sprintf("f%d", i), "OS": "o", "CPU": "c"}))
									case mask&(1<<i) == 0:
										s2.store(Ptr{Obj: cur.Obj, Path: pathAppend(cur.Path, cur.Lo+i)}, mkStruct(archT, matching2[i]))
									default:
										s2.store(Ptr{Obj: cur.Obj, Path: pathAppend(cur.Path, cur.Lo+i)}, mkStruct(archT, others2[i]))
									}
								}
								s2.Status = stRun
								s2.Frames = nil
								s2.push(fn, []Val{Ptr{Obj: sid}, Ptr{Obj: oid}}, nil)
								out2 := m.Run(s2)
								rows++
								if len(out2) != 1 || out2[0].Status != stRet || badArg != "" {
									return rows, bad, first, fmt.Sprintf("second call, n=%d mask=%b not=%v: %s %s", n, mask, not, retDesc(out2), badArg)
								}
								inv := ^mask & (1<<n - 1)
								want2 := (inv != 0) != not
								if out2[0].Ret != want2 {
									bad++
									if first == "" {
										first = fmt.Sprintf("list of %d entries, negated=%v: after the entries were replaced in place (now matching: %0*b) a second Matches on the same set answers %v, want %v: the answer does not follow the set's current content", n, not, n, inv, out2[0].Ret, want2)
									}
								}
							}
						}
					}
				}
			}
		}
		return rows, bad, first, ""
	}
	rows, bad, first, undec := table(false)
	mode := ""
	if oracleCalls == 0 && (bad > 0 || undec != "") {
		rows, bad, first, undec = table(true)
		mode = " (Matches does not call Arch.Is: run with concrete architectures, whose Is answers are decided by C06-IS)"
	}
	if undec != "" {
		r.undecided("dependency.ArchSet.Matches", pos, undec)
	} else if bad > 0 {
		r.bad("dependency.ArchSet.Matches", pos, fmt.Sprintf("%d of %d rows wrong: %s", bad, rows, first), nil)
	} else {
		r.ok("dependency.ArchSet.Matches", pos, fmt.Sprintf("%d rows (lengths 0..3 x every match pattern x negation)%s%s", rows, lenNote, mode))
	}
}

// ---- C06-SELECT -----------------------------------------------------------------

func c06Select(p *Prog, rp *Report, archT *types.Named) {
	r := rp.Rule("C06-SELECT", "GetPossibilities: per relation, in order, the first non-substvar alternative whose list admits the architecture; GetAllPossibilities / GetSubstvars", 3)
	depT := p.Named("dependency", "Dependency")
	relT := p.Named("dependency", "Relation")
	posT := p.Named("dependency", "Possibility")
	setT := p.Named("dependency", "ArchSet")
	matches := p.Method("dependency", "ArchSet", "Matches")
	if depT == nil || relT == nil || posT == nil || setT == nil || matches == nil {
		r.bad("dependency.Dependency", "", "types not found", nil)
		return
	}
	// shapes: up to 2 relations with up to 3 alternatives each; each alternative
	// is (substvar?, admits?).
	type alt struct{ sub, adm bool }
	var altSets [][]alt
	var gen func(n int, cur []alt)
	gen = func(n int, cur []alt) {
		if len(cur) == n {
			altSets = append(altSets, append([]alt(nil), cur...))
			return
		}
		for _, a := range []alt{{false, false}, {false, true}, {true, false}, {true, true}} {
			gen(n, append(cur, a))
		}
	}
	for n := 0; n <= 3; n++ {
		gen(n, nil)
	}
	for _, method := range []string{"GetPossibilities", "GetAllPossibilities", "GetSubstvars"} {
		fn := p.Method("dependency", "Dependency", method)
		if fn == nil {
			r.bad("dependency.Dependency."+method, "", "method not found", nil)
			continue
		}
		pos := p.Pos(fn.Pos())
		lenNote := "; loops carry only indexes and an append-only result"
		if ok, why := loopStateOK(fn); !ok {
			lenNote = " (bounded: up to 3 alternatives and 2 relations only; no induction to longer lists because " + why + ")"
		}
		rows, bad := 0, 0
		first := ""
		undec := ""
		// oracle mode plays ArchSet.Matches; when the selection does not call it (its logic inlined) the shapes are
		// run with concrete architecture lists whose real answers (C06-SET, C06-IS) form the same patterns
		concrete := false
		oracleCalls := 0
		mkArch := func(abi, os, cpu string) Val {
			return mkStruct(archT, map[string]Val{"ABI": abi, "OS": os, "CPU": cpu})
		}
		admitting := [][]Val{nil, {mkArch("any", "linux", "any")}, {mkArch("gnu", "linux", "i386"), mkArch("gnu", "linux", "amd64")}}
		refusing := [][]Val{{mkArch("gnu", "linux", "i386")}, {mkArch("any", "kfreebsd", "any")}, {mkArch("musl", "linux", "amd64"), mkArch("gnu", "linux", "arm64")}}
		run := func(rels [][]alt) {
			m := NewMachine(p, nil)
			st := freshState(m, "dependency", "version")
			admits := map[int]bool{}
			relArr := &ArrayV{}
			for ri, alts := range rels {
				pa := &ArrayV{}
				for ai, a := range alts {
					setFields := map[string]Val{}
					if concrete {
						list := refusing[(ri+ai)%3]
						if a.adm {
							list = admitting[(ri+ai)%3]
						}
						arr := &ArrayV{}
						for _, e := range list {
							arr.E = append(arr.E, cloneVal(e))
						}
						lid := st.alloc(types.NewArray(archT, int64(len(list))), arr)
						setFields["Architectures"] = SliceV{Obj: lid, Len_: len(list), Cap: len(list)}
					}
					setID := st.alloc(setT, mkStruct(setT, setFields))
					admits[setID] = a.adm
					pa.E = append(pa.E, mkStruct(posT, map[string]Val{"Name": fmt.Sprintf("r%da%d", ri, ai), "Substvar": a.sub, "Architectures": Ptr{Obj: setID}}))
				}
				pid := st.alloc(types.NewArray(posT, int64(len(alts))), pa)
				relArr.E = append(relArr.E, mkStruct(relT, map[string]Val{"Possibilities": SliceV{Obj: pid, Len_: len(alts), Cap: len(alts)}}))
			}
			rid := st.alloc(types.NewArray(relT, int64(len(rels))), relArr)
			did := st.alloc(depT, mkStruct(depT, map[string]Val{"Relations": SliceV{Obj: rid, Len_: len(rels), Cap: len(rels)}}))
			badArg := ""
			if !concrete {
				m.Hooks[matches.String()] = func(m *Machine, st *State, call *ssa.CallCommon, args []Val) ([]Val, bool) {
					oracleCalls++
					return matchesOracle(st, archT, admits, &badArg, args)
				}
			}
			_ = func(m *Machine, st *State, call *ssa.CallCommon, args []Val) ([]Val, bool) {
				recv, ok := args[0].(Ptr)
				if !ok {
					badArg = "Matches on a non-pointer"
					return []Val{false}, true
				}
				if ap, ok := args[1].(Ptr); ok {
					av, _ := st.load(ap)
					if as, ok := av.(*StructV); !ok || as.F[fieldIndex(structOf(archT), "CPU")] != "thearch" {
						badArg = "Matches is asked about something other than the architecture argument"
					}
				}
				return []Val{admits[recv.Obj]}, true
			}
			// what the environment holds is not an input of the selection: every answer of a look-up is played
			envRead := ""
			m.Hooks["os.LookupEnv"] = func(m *Machine, st *State, call *ssa.CallCommon, args []Val) ([]Val, bool) {
				envRead, _ = args[0].(string)
				return []Val{&TupleV{E: []Val{"", false}}, &TupleV{E: []Val{"", true}}, &TupleV{E: []Val{"stage1 nocheck", true}}}, true
			}
			m.Hooks["os.Getenv"] = func(m *Machine, st *State, call *ssa.CallCommon, args []Val) ([]Val, bool) {
				envRead, _ = args[0].(string)
				return []Val{"", "stage1 nocheck"}, true
			}
			defer func() {
				if envRead != "" {
					bad++
					undec = ""
					if first == "" {
						first = fmt.Sprintf("relations %v: the selection looks up the environment variable %s: the answer is not a function of the dependency and the architecture", rels, envRead)
					}
				}
			}()
			args := []Val{Ptr{Obj: did}}
			if method == "GetPossibilities" {
				if concrete {
					args = append(args, mkArch("gnu", "linux", "amd64"))
				} else {
					args = append(args, mkStruct(archT, map[string]Val{"ABI": "a", "OS": "o", "CPU": "thearch"}))
				}
			}
			before := deepRender(st, Ptr{Obj: did}, 0)
			st.push(fn, args, nil)
			out := m.Run(st)
			rows++
			if len(out) != 1 || out[0].Status != stRet || badArg != "" {
				undec = fmt.Sprintf("%v: %s %s", rels, retDesc(out), badArg)
				return
			}
			if after := deepRender(out[0], Ptr{Obj: did}, 0); after != before {
				bad++
				if first == "" {
					first = fmt.Sprintf("relations %v: the query modifies the dependency it is asked about (a later query gives a different answer): before %s, after %s", rels, clip(before, 200), clip(after, 200))
				}
				return
			}
			var got []string
			elems, _, ok := m.sliceElems(out[0], out[0].Ret)
			if !ok {
				undec = "result is not a slice"
				return
			}
			for _, e := range elems {
				got = append(got, e.(*StructV).F[fieldIndex(structOf(posT), "Name")].(string))
			}
			var want []string
			for ri, alts := range rels {
				for ai, a := range alts {
					name := fmt.Sprintf("r%da%d", ri, ai)
					switch method {
					case "GetPossibilities":
						if !a.sub && a.adm {
							want = append(want, name)
						}
					case "GetAllPossibilities":
						if !a.sub {
							want = append(want, name)
						}
					case "GetSubstvars":
						if a.sub {
							want = append(want, name)
						}
					}
					if method == "GetPossibilities" && !a.sub && a.adm {
						break
					}
				}
			}
			if strings.Join(got, ",") != strings.Join(want, ",") {
				bad++
				if first == "" {
					first = fmt.Sprintf("relations %v (sub=substvar, adm=list admits the architecture): returned [%s], want [%s]", rels, strings.Join(got, ","), strings.Join(want, ","))
				}
			}
		}
		run(nil)
		for _, a := range altSets {
			run([][]alt{a})
			if undec != "" {
				break
			}
		}
		// two relations: every pair of shapes with up to 2 alternatives
		for _, a := range altSets {
			if len(a) > 2 || undec != "" {
				continue
			}
			for _, b := range altSets {
				if len(b) > 2 {
					continue
				}
				run([][]alt{a, b})
			}
		}
		mode := ""
		if method == "GetPossibilities" && oracleCalls == 0 && (bad > 0 || undec != "") && !concrete {
			concrete = true
			rows, bad, first, undec = 0, 0, "", ""
			run(nil)
			for _, a := range altSets {
				if undec == "" {
					run([][]alt{a})
				}
			}
			for _, a := range altSets {
				if len(a) > 2 || undec != "" {
					continue
				}
				for _, b := range altSets {
					if len(b) <= 2 {
						run([][]alt{a, b})
					}
				}
			}
			mode = " (the selection does not call ArchSet.Matches: run with concrete architecture lists)"
		}
		switch {
		case undec != "":
			r.undecided("dependency.Dependency."+method, pos, undec)
		case bad > 0:
			r.bad("dependency.Dependency."+method, pos, fmt.Sprintf("%d of %d shapes wrong: %s", bad, rows, first), nil)
		default:
			r.ok("dependency.Dependency."+method, pos, fmt.Sprintf("%d dependency shapes (1 relation x 0..3 alternatives, 2 relations x 0..2, every substvar/admit pattern)%s%s", rows, lenNote, mode))
		}
	}
}

// ---- C06-SAT --------------------------------------------------------------------

func c06Sat(p *Prog, rp *Report) {
	r := rp.Rule("C06-SAT", "SatisfiedBy: (op N) holds for V iff Compare(V,N) <0,<=0,=0,>=0,>0 for <<,<=,=,>=,>>; never for unparsable N or unknown op", 1)
	fn := p.Method("dependency", "VersionRelation", "SatisfiedBy")
	vrT := p.Named("dependency", "VersionRelation")
	verT := p.Named("version", "Version")
	parse := p.Func("version", "Parse")
	compare := p.Func("version", "Compare")
	if fn == nil || vrT == nil || verT == nil || parse == nil || compare == nil {
		r.bad("dependency.VersionRelation.SatisfiedBy", "", "anchor not found", nil)
		return
	}
	pos := p.Pos(fn.Pos())
	ops := map[string]bool{"<<": true, "<=": true, "=": true, ">=": true, ">>": true, "<": true, ">": true, "==": true, "!=": true, "": true, "eq": true, "=<": true, "=>": true}
	for _, l := range stringLiterals(reachableRepoFuncs(fn)) {
		ops[l] = true
	}
	var opl []string
	for k := range ops {
		opl = append(opl, k)
	}
	sort.Strings(opl)
	errT := types.Universe.Lookup("error").Type()
	rows, bad := 0, 0
	first := ""
	for _, op := range opl {
		for _, parseOK := range []bool{true, false} {
			for _, q := range []int64{-6, -1, 0, 1, 8} {
				m := NewMachine(p, nil)
				order := ""
				parsed := ""
				m.Hooks[parse.String()] = func(m *Machine, st *State, call *ssa.CallCommon, args []Val) ([]Val, bool) {
					parsed, _ = args[0].(string)
					if parseOK {
						name := "N"
						if parsed == "other-number" {
							name = "M" // the number put in place for the second question
						}
						return []Val{&TupleV{E: []Val{mkStruct(verT, map[string]Val{"Version": name}), nilV{}}}}, true
					}
					return []Val{&TupleV{E: []Val{mkStruct(verT, map[string]Val{}), IfaceV{T: errT, V: "parse error"}}}}, true
				}
				q := q
				m.Hooks[compare.String()] = func(m *Machine, st *State, call *ssa.CallCommon, args []Val) ([]Val, bool) {
					second := false
					for _, a := range args {
						s, _ := a.(*StructV)
						if s != nil {
							v, _ := s.F[fieldIndex(structOf(verT), "Version")].(string)
							order += v
							if v == "M" {
								second = true
							}
						}
					}
					if second {
						return []Val{-q - 1}, true // the other number compares the other way round
					}
					return []Val{q}, true
				}
				st := freshState(m, "dependency", "version")
				var recvArg Val = mkStruct(vrT, map[string]Val{"Number": "the-number", "Operator": op})
				recvID := -1
				if _, ptrRecv := fn.Signature.Recv().Type().(*types.Pointer); ptrRecv {
					recvID = st.alloc(vrT, recvArg)
					recvArg = Ptr{Obj: recvID}
				}
				st.push(fn, []Val{recvArg, mkStruct(verT, map[string]Val{"Version": "V"})}, nil)
				out := m.Run(st)
				rows++
				if len(out) != 1 || out[0].Status != stRet {
					r.undecided("dependency.VersionRelation.SatisfiedBy", pos, fmt.Sprintf("op %q: %s", op, retDesc(out)))
					return
				}
				want := false
				if parseOK {
					switch op {
					case "<<":
						want = q < 0
					case "<=":
						want = q <= 0
					case "=":
						want = q == 0
					case ">=":
						want = q >= 0
					case ">>":
						want = q > 0
					}
				}
				problem := ""
				if out[0].Ret != want {
					problem = fmt.Sprintf("result %v, want %v", out[0].Ret, want)
				} else if parseOK && order != "" && order != "VN" {
					problem = fmt.Sprintf("Compare is called with operands in the order %q, want V then N", order)
				} else if parsed != "" && parsed != "the-number" {
					problem = fmt.Sprintf("parses %q instead of the constraint's number", parsed)
				}
				if problem == "" && recvID >= 0 && parseOK {
					// a pointer receiver can remember things: change the number in place and ask again
					s2 := out[0]
					if sv, ok := s2.Heap[recvID].V.(*StructV); ok {
						sv.F[fieldIndex(structOf(vrT), "Number")] = "other-number"
						order, parsed = "", ""
						s2.Status = stRun
						s2.Frames = nil
						s2.push(fn, []Val{Ptr{Obj: recvID}, mkStruct(verT, map[string]Val{"Version": "V"})}, nil)
						out2 := m.Run(s2)
						rows++
						if len(out2) != 1 || out2[0].Status != stRet {
							r.undecided("dependency.VersionRelation.SatisfiedBy", pos, fmt.Sprintf("op %q, second call: %s", op, retDesc(out2)))
							return
						}
						q2 := -q - 1
						want2 := false
						switch op {
						case "<<":
							want2 = q2 < 0
						case "<=":
							want2 = q2 <= 0
						case "=":
							want2 = q2 == 0
						case ">=":
							want2 = q2 >= 0
						case ">>":
							want2 = q2 > 0
						}
						if out2[0].Ret != want2 {
							problem = fmt.Sprintf("after the constraint's number was changed in place a second call answers %v, want %v (the answer for the old number is remembered)", out2[0].Ret, want2)
						}
					}
				}
				if problem != "" {
					bad++
					if first == "" {
						first = fmt.Sprintf("operator %q, N parsable=%v, Compare(V,N)=%d: %s", op, parseOK, q, problem)
					}
				}
			}
		}
	}
	// end to end, with version.Parse and version.Compare interpreted rather than played: numbers that the
	// dependency parser lets through but that are no versions never satisfy anything (and never panic), and a few
	// real comparisons come out right
	if bad == 0 {
		m := NewMachine(p, nil)
		installStringModels(m)
		type e2e struct {
			op, n, v string
			want     bool
		}
		var tbl []e2e
		for _, n := range []string{"-1", "-", "0:-1", "1:-0~1", "", "a", ":1", "1:", "1 2", "-0"} {
			for _, op := range []string{"<<", "<=", "=", ">=", ">>"} {
				tbl = append(tbl, e2e{op, n, "1.0-1", false})
			}
		}
		tbl = append(tbl, e2e{">=", "1.0", "1.0-1", true}, e2e{"<<", "1.0", "1.0~rc1", true}, e2e{"=", "1:2.0-1", "1:2.0-1", true}, e2e{">>", "2.0", "1:0.1", true}, e2e{"<=", "1.0-1", "1.0-2", false})
		for _, row := range tbl {
			st := freshState(m, "dependency", "version")
			// V is parsed by the library itself
			st.push(parse, []Val{row.v}, nil)
			out := m.Run(st)
			if len(out) != 1 || out[0].Status != stRet {
				r.undecided("dependency.VersionRelation.SatisfiedBy", pos, fmt.Sprintf("version.Parse(%q): %s", row.v, retDesc(out)))
				return
			}
			vv := st.Ret.(*TupleV).E[0]
			var recvArg Val = mkStruct(vrT, map[string]Val{"Number": row.n, "Operator": row.op})
			if _, ptrRecv := fn.Signature.Recv().Type().(*types.Pointer); ptrRecv {
				recvArg = Ptr{Obj: st.alloc(vrT, recvArg)}
			}
			st.Status = stRun
			st.Frames = nil
			st.push(fn, []Val{recvArg, vv}, nil)
			out = m.Run(st)
			rows++
			switch {
			case len(out) == 1 && out[0].Status == stPanic:
				bad++
				if first == "" {
					first = fmt.Sprintf("(%s %s) asked about %s panics: %s (an unparsable number must give false)", row.op, row.n, row.v, out[0].Msg)
				}
			case len(out) != 1 || out[0].Status != stRet:
				r.undecided("dependency.VersionRelation.SatisfiedBy", pos, fmt.Sprintf("(%s %q) about %s: %s", row.op, row.n, row.v, retDesc(out)))
				return
			case out[0].Ret != row.want:
				bad++
				if first == "" {
					first = fmt.Sprintf("(%s %s) asked about %s answers %v, want %v", row.op, row.n, row.v, out[0].Ret, row.want)
				}
			}
		}
	}
	if bad > 0 {
		r.bad("dependency.VersionRelation.SatisfiedBy", pos, fmt.Sprintf("%d of %d rows wrong: %s", bad, rows, first), nil)
	} else {
		r.ok("dependency.VersionRelation.SatisfiedBy", pos, fmt.Sprintf("%d rows = %d operators (5 Policy operators, near misses, literals of the code) x parsable/unparsable x 5 comparison results", rows, len(opl)))
	}
}

// freshState: a state in which the package initialisers have run (cached per machine, cloned per use).
var freshCache = map[*Machine]*State{}

func freshState(m *Machine, pkgs ...string) *State {
	base, ok := freshCache[m]
	if !ok {
		base = initState(m, pkgs...)
		freshCache[m] = base
	}
	st := base.Clone()
	if st.Status != stStuck {
		st.Status = stRun
	}
	return st
}

// matchesOracle plays ArchSet.Matches for C06-SELECT: the answer is the one scripted for the receiver.
func matchesOracle(st *State, archT *types.Named, admits map[int]bool, badArg *string, args []Val) ([]Val, bool) {
	recv, ok := args[0].(Ptr)
	if !ok {
		*badArg = "Matches on a non-pointer"
		return []Val{false}, true
	}
	if ap, ok := args[1].(Ptr); ok {
		av, _ := st.load(ap)
		if as, ok := av.(*StructV); !ok || as.F[fieldIndex(structOf(archT), "CPU")] != "thearch" {
			*badArg = "Matches is asked about something other than the architecture argument"
		}
	}
	return []Val{admits[recv.Obj]}, true
}
