package main

// C12 — checksums computed and verified by the library.

import (
	"encoding/hex"
	"fmt"
	"go/types"
	"sort"
	"strings"

	"golang.org/x/tools/go/ssa"
)

func init() { register("C12", checkC12) }

var hashCtors = map[string]string{"md5": "crypto/md5.New", "sha1": "crypto/sha1.New", "sha256": "crypto/sha256.New", "sha512": "crypto/sha512.New"}

// installHashCtors: every hash constructor returns a fresh opaque hash tagged
// with its constructor.
func installHashCtors(m *Machine, counter *int) {
	hashIface := types.NewPointer(types.Typ[types.Int])
	for _, pkg := range []string{"crypto/md5", "crypto/sha1", "crypto/sha256", "crypto/sha512"} {
		for _, fn := range []string{"New", "New224", "New384", "New512_224", "New512_256"} {
			name := pkg + "." + fn
			m.Hooks[name] = func(m *Machine, st *State, call *ssa.CallCommon, args []Val) ([]Val, bool) {
				*counter++
				id := st.alloc(types.Typ[types.Int], OpaqueV{fmt.Sprintf("%s#%d", name, *counter)})
				return []Val{IfaceV{T: hashIface, V: Ptr{Obj: id}}}, true
			}
		}
	}
	m.Hooks["encoding/hex.DecodeString"] = func(m *Machine, st *State, call *ssa.CallCommon, args []Val) ([]Val, bool) {
		s, ok := args[0].(string)
		if !ok {
			return nil, false
		}
		b, err := hex.DecodeString(s)
		if err != nil {
			return []Val{&TupleV{E: []Val{nilV{}, IfaceV{T: errType, V: "bad hex"}}}}, true
		}
		arr := &ArrayV{}
		for _, x := range b {
			arr.E = append(arr.E, int64(x))
		}
		id := st.alloc(types.NewArray(types.Typ[types.Uint8], int64(len(b))), arr)
		return []Val{&TupleV{E: []Val{SliceV{Obj: id, Len_: len(b), Cap: len(b)}, nilV{}}}}, true
	}
}

// hashTag returns the constructor tag of an opaque hash value.
func hashTag(st *State, v Val) string {
	if iv, ok := v.(IfaceV); ok {
		v = iv.V
	}
	if p, ok := v.(Ptr); ok {
		if o, ok := st.Heap[p.Obj]; ok {
			if ov, ok := o.V.(OpaqueV); ok {
				return ov.Name
			}
			if sv, ok := o.V.(*StructV); ok { // *Hasher: look inside
				for _, f := range sv.F {
					if t := hashTag(st, f); t != "" {
						return t
					}
				}
			}
		}
	}
	return ""
}

func checkC12(p *Prog, rp *Report) {
	rp.Explanation = "C12-ALG: hashio.GetHash interpreted abstractly maps md5/sha1/sha256/sha512 to a FRESH crypto/md5|sha1|sha256|sha512.New() and every other name to an error. C12-VERIFIER: FileHash.Verifier picks the constructor of the entry's own Algorithm for every algorithm name and every hash length, returns the hex decoding error, and reaches no log.Fatal/os.Exit/panic. C12-FIELDTYPE: every Files / Checksums-* struct field has the element type whose UnmarshalControl tags entries with that field's algorithm. C12-COUNT: Hasher.Write forwards the slice unchanged, adds the returned count to size, returns the hash's results; Size/Sum/Name return the fields; NewHasher wires name and GetHash(name). C12-FANOUT: the four constructors return one hasher per requested name in order, all of them plus the target in the MultiWriter (writers) or the target as TeeReader source (readers); an unknown name yields an error and nothing else. C12-CLOSE: verifier.Write forwards; the first Close fails iff !bytes.Equal(h.Sum(nil), want); FileHashFromHasher copies Name(), hex of Sum(nil), Size(). C12-BEST: Checksums() preference table."
	rp.NotDecided = "the digest implementations and hash.Hash's independence of chunking (standard library); io.MultiWriter / io.TeeReader pass bytes through unchanged (standard library)."
	rp.Trusted = []string{"go/types, go/ssa", "crypto/md5, sha1, sha256, sha512; hash.Hash", "io.MultiWriter, io.TeeReader, bytes.Equal, encoding/hex"}

	// ---- C12-ALG
	alg := rp.Rule("C12-ALG", "algorithm table of hashio.GetHash", 1)
	gh := p.Func("hashio", "GetHash")
	if gh == nil {
		alg.bad("hashio.GetHash", "", "function not found", nil)
	} else {
		names := map[string]bool{"md5": true, "sha1": true, "sha256": true, "sha512": true, "sha224": true, "sha384": true, "": true, "MD5": true, "sha": true, "sha-256": true}
		for _, l := range stringLiterals(reachableRepoFuncs(gh)) {
			if !strings.Contains(l, " ") {
				names[l] = true
			}
		}
		var problems []string
		counter := 0
		for _, n := range keysOf(names) {
			var tags []string
			m := NewMachine(p, nil)
			installStringModels(m)
			installHashCtors(m, &counter)
			st := initState(m, "hashio", "control")
			for rep := 0; rep < 2 && st.Status != stStuck; rep++ { // twice in one program state: the hash must be fresh every time
				st.Status = stRun
				st.push(gh, []Val{n}, nil)
				out := m.Run(st)
				if len(out) != 1 || out[0].Status != stRet {
					problems = append(problems, fmt.Sprintf("GetHash(%q): undecided: %s", n, retDesc(out)))
					break
				}
				tv := out[0].Ret.(*TupleV)
				_, errNil := tv.E[1].(nilV)
				tag := hashTag(out[0], tv.E[0])
				if iv, ok := tv.E[0].(IfaceV); ok {
					tag += fmt.Sprintf("@%v", iv.V)
				}
				tags = append(tags, tag)
				want, known := hashCtors[n]
				switch {
				case known && (!errNil || !strings.HasPrefix(tag, want+"#")):
					problems = append(problems, fmt.Sprintf("GetHash(%q) gives %q (error nil: %v), want a %s()", n, tag, errNil, want))
				case !known && errNil:
					problems = append(problems, fmt.Sprintf("GetHash(%q) succeeds (with %q): unknown algorithm names must be errors", n, tag))
				}
			}
			if st.Status == stStuck {
				problems = append(problems, "undecided: "+st.Msg)
			}
			if len(tags) == 2 && tags[0] != "" && tags[0] == tags[1] {
				problems = append(problems, fmt.Sprintf("GetHash(%q) returns the same hash object on every call: concurrent hashers/verifiers would share one digest state", n))
			}
		}
		undec := false
		for _, pr := range problems {
			if strings.Contains(pr, "undecided") {
				undec = true
			}
		}
		if undec {
			alg.undecided("hashio.GetHash", p.Pos(gh.Pos()), problems[0])
		} else {
			alg.check(len(problems) == 0, "hashio.GetHash", p.Pos(gh.Pos()), fmt.Sprintf("%d names decided: the four algorithms map to fresh instances of their constructors, everything else is an error", len(names)), strings.Join(problems, "; "))
		}
	}

	// ---- C12-VERIFIER
	ver := rp.Rule("C12-VERIFIER", "FileHash.Verifier uses the entry's own algorithm; no process exit", 2)
	vf := p.Method("control", "FileHash", "Verifier")
	fhT := p.Named("control", "FileHash")
	if vf == nil || fhT == nil {
		ver.bad("control.FileHash.Verifier", "", "method not found", nil)
	} else {
		var problems []string
		counter := 0
		hashes := map[int]string{16: strings.Repeat("ab", 16), 20: strings.Repeat("cd", 20), 32: strings.Repeat("ef", 32), 64: strings.Repeat("01", 64), 3: "abcdef"}
		algos := []string{"md5", "sha1", "sha256", "sha512", "sha3", ""}
		rows := 0
		for _, a := range algos {
			for _, hl := range []int{16, 20, 32, 64, 3} {
				m := NewMachine(p, nil)
				installStringModels(m)
				installHashCtors(m, &counter)
				st := initState(m, "hashio", "control")
				id := st.alloc(fhT, mkStruct(fhT, map[string]Val{"Algorithm": a, "Hash": hashes[hl], "Filename": "f"}))
				st.push(vf, []Val{Ptr{Obj: id}}, nil)
				out := m.Run(st)
				rows++
				if len(out) != 1 || out[0].Status != stRet {
					problems = append(problems, fmt.Sprintf("undecided: Verifier of a %q entry: %s", a, retDesc(out)))
					continue
				}
				tv := out[0].Ret.(*TupleV)
				_, errNil := tv.E[1].(nilV)
				want, known := hashCtors[a]
				if !known {
					if errNil {
						problems = append(problems, fmt.Sprintf("a %q entry gets a verifier", a))
					}
					continue
				}
				if !errNil {
					problems = append(problems, fmt.Sprintf("a %s entry with a %d byte hash gets no verifier", a, hl))
					continue
				}
				tag := hashTag(out[0], tv.E[0])
				if iv, ok := tv.E[0].(IfaceV); ok {
					if pp, ok := iv.V.(Ptr); ok {
						if sv, ok := out[0].Heap[pp.Obj].V.(*StructV); ok {
							tag = ""
							for _, f := range sv.F {
								if t := hashTag(out[0], f); t != "" {
									tag = t
								}
							}
						}
					}
				}
				if !strings.HasPrefix(tag, want+"#") {
					problems = append(problems, fmt.Sprintf("a %s entry whose recorded hash is %d bytes long is verified with %s, want %s (the entry's own algorithm decides, not the hash length)", a, hl, tag, want))
				}
			}
		}
		// invalid hex
		{
			m := NewMachine(p, nil)
			installStringModels(m)
			installHashCtors(m, &counter)
			st := initState(m, "hashio", "control")
			id := st.alloc(fhT, mkStruct(fhT, map[string]Val{"Algorithm": "sha256", "Hash": "zz"}))
			st.push(vf, []Val{Ptr{Obj: id}}, nil)
			out := m.Run(st)
			if len(out) == 1 && out[0].Status == stRet {
				if _, errNil := out[0].Ret.(*TupleV).E[1].(nilV); errNil {
					problems = append(problems, "a hash that is not hexadecimal gets a verifier")
				}
			}
		}
		undec := ""
		for _, pr := range problems {
			if strings.HasPrefix(pr, "undecided") {
				undec = pr
			}
		}
		if undec != "" {
			ver.undecided("control.FileHash.Verifier", p.Pos(vf.Pos()), undec)
		} else {
			n := len(problems)
			if n > 3 {
				problems = append(problems[:3], fmt.Sprintf("... %d rows wrong in all", n))
			}
			ver.check(n == 0, "control.FileHash.Verifier", p.Pos(vf.Pos()), fmt.Sprintf("%d rows (6 algorithm names x 5 hash lengths) + invalid hex", rows), strings.Join(problems, "; "))
		}
		fs := fatalSites([]*ssa.Function{vf, p.Func("control", "FileHashFromHasher")})
		if len(fs) == 0 {
			ver.ok("control.FileHash.Verifier:no-exit", p.Pos(vf.Pos()), "no log.Fatal / os.Exit / panic reachable")
		}
		for _, s := range fs {
			ver.bad("control.FileHash.Verifier:no-exit", p.Pos(s.Pos), s.What+" reachable: asking for a verifier can terminate the process", nil)
		}
	}

	// ---- C12-FIELDTYPE
	ft := rp.Rule("C12-FIELDTYPE", "checksum fields have the element type of their algorithm", 12)
	tagRule(p, ft, func(doc string, ti tagInfo, kind string) bool {
		if strings.HasPrefix(kind, "checksum lines") || kind == kH5 {
			return true
		}
		// a field typed as a file hash list under any other name is suspicious too
		if sl, ok := ti.Type.Underlying().(*types.Slice); ok {
			if n, ok := sl.Elem().(*types.Named); ok && strings.HasSuffix(n.Obj().Name(), "FileHash") {
				return true
			}
		}
		return false
	})

	c12Count(p, rp)
	c12Fanout(p, rp)
	c12Close(p, rp)

	best := rp.Rule("C12-BEST", "Checksums(): Sha256 entries if any, else Sha512, else none", 1)
	tmp := NewReport("C10", rp.Tier)
	c10Access(p, tmp)
	for _, r := range tmp.Rules {
		for _, in := range r.Instances {
			if in.Construct == "control.BestChecksums.Checksums" {
				best.Instances = append(best.Instances, in)
			}
		}
	}
}

func c12Count(p *Prog, rp *Report) {
	r := rp.Rule("C12-COUNT", "Hasher counts and forwards exactly the bytes written", 5)
	tm := newTermer()
	w := p.Method("hashio", "Hasher", "Write")
	if w == nil {
		r.bad("hashio.Hasher.Write", "", "method not found", nil)
	} else {
		okFwd, okSize, okRet := false, false, false
		for _, c := range allCalls(w) {
			if tm.term(c.(ssa.Value)) == "p0.hash.Write(p1)" {
				okFwd = true
			}
		}
		for _, b := range w.Blocks {
			for _, ins := range b.Instrs {
				if st, ok := ins.(*ssa.Store); ok && tm.term(st.Addr) == "&p0.size" {
					v := tm.term(st.Val)
					okSize = v == "(p0.hash.Write(p1)#0 + p0.size)" || v == "(len(p1) + p0.size)"
				}
			}
		}
		for _, ret := range returnsReachable(w.Blocks[0]) {
			okRet = tm.term(ret.Results[0]) == "p0.hash.Write(p1)#0" && tm.term(ret.Results[1]) == "p0.hash.Write(p1)#1"
		}
		var stores int
		for _, b := range w.Blocks {
			for _, ins := range b.Instrs {
				if _, ok := ins.(*ssa.Store); ok {
					stores++
				}
			}
		}
		r.check(okFwd && okSize && okRet && stores == 1, "hashio.Hasher.Write", p.Pos(w.Pos()), "hash.Write(p) with the caller's slice; size += n; (n, err) returned", fmt.Sprintf("forwarding=%v size-update=%v results=%v stores=%d (expected: hash.Write(p); size += n; return n, err)", okFwd, okSize, okRet, stores))
	}
	for _, acc := range []struct{ name, want string }{{"Size", "p0.size"}, {"Name", "p0.name"}, {"Sum", "p0.hash.Sum(p1)"}} {
		fn := p.Method("hashio", "Hasher", acc.name)
		key := "hashio.Hasher." + acc.name
		if fn == nil {
			r.bad(key, "", "method not found", nil)
			continue
		}
		t := newTermer()
		got := ""
		for _, ret := range returnsReachable(fn.Blocks[0]) {
			got = t.term(ret.Results[0])
		}
		r.check(got == acc.want, key, p.Pos(fn.Pos()), "returns "+acc.want, "returns "+got+", want "+acc.want)
	}
	if nh := p.Func("hashio", "NewHasher"); nh != nil {
		t := newTermer()
		fields := map[string]string{}
		for _, b := range nh.Blocks {
			for _, ins := range b.Instrs {
				if st, ok := ins.(*ssa.Store); ok {
					a := t.term(st.Addr)
					if i := strings.LastIndex(a, "."); i >= 0 {
						fields[a[i+1:]] = t.term(st.Val)
					}
				}
			}
		}
		ok := fields["name"] == "p0" && fields["hash"] == "hashio.GetHash(p0)#0" && (fields["size"] == "0" || fields["size"] == "")
		okErr := false
		for _, s := range errDiscipline(nh, func(n string, c *ssa.Call) bool { return strings.HasSuffix(n, "hashio.GetHash") }) {
			okErr = s.Status == "checked" || s.Status == "returned"
		}
		r.check(ok && okErr, "hashio.NewHasher", p.Pos(nh.Pos()), "name = the requested name, hash = GetHash(name), size = 0; GetHash's error returned", fmt.Sprintf("fields %v, error propagated %v", fields, okErr))
	} else {
		r.bad("hashio.NewHasher", "", "function not found", nil)
	}
}

func c12Fanout(p *Prog, rp *Report) {
	r := rp.Rule("C12-FANOUT", "hashing writers/readers: every requested hasher is returned and fed; the target is fed", 4)
	hasherT := p.Named("hashio", "Hasher")
	type variant struct {
		name   string
		multi  bool
		reader bool
	}
	for _, v := range []variant{{"NewHasherWriter", false, false}, {"NewHasherWriters", true, false}, {"NewHasherReader", false, true}, {"NewHasherReaders", true, true}} {
		fn := p.Func("hashio", v.name)
		key := "hashio." + v.name
		if fn == nil {
			r.bad(key, "", "function not found", nil)
			continue
		}
		pos := p.Pos(fn.Pos())
		reqs := [][]string{{"sha256"}, {"md5", "sha512"}, {"sha1", "sha256", "md5"}, {"sha256", "nope"}, {}}
		if !v.multi {
			reqs = [][]string{{"md5"}, {"sha512"}, {"nope"}}
		}
		var problems []string
		for _, req := range reqs {
			counter := 0
			m := NewMachine(p, nil)
			installStringModels(m)
			installHashCtors(m, &counter)
			var multiArgs [][]Val
			var tee [][]Val
			ifT := types.NewPointer(types.Typ[types.Int])
			m.Hooks["io.MultiWriter"] = func(m *Machine, st *State, call *ssa.CallCommon, args []Val) ([]Val, bool) {
				elems, many, ok := m.sliceElems(st, args[0])
				if !ok || many {
					return nil, false
				}
				multiArgs = append(multiArgs, elems)
				id := st.alloc(types.Typ[types.Int], OpaqueV{fmt.Sprintf("MultiWriter#%d", len(multiArgs))})
				return []Val{IfaceV{T: ifT, V: Ptr{Obj: id}}}, true
			}
			m.Hooks["io.TeeReader"] = func(m *Machine, st *State, call *ssa.CallCommon, args []Val) ([]Val, bool) {
				tee = append(tee, args)
				id := st.alloc(types.Typ[types.Int], OpaqueV{"TeeReader"})
				return []Val{IfaceV{T: ifT, V: Ptr{Obj: id}}}, true
			}
			st := initState(m, "hashio", "control")
			tid := st.alloc(types.Typ[types.Int], OpaqueV{"target"})
			target := IfaceV{T: ifT, V: Ptr{Obj: tid}}
			var args []Val
			if v.multi {
				args = []Val{strSlice(st, req), target}
			} else {
				args = []Val{req[0], target}
			}
			st.push(fn, args, nil)
			out := m.Run(st)
			if len(out) != 1 || out[0].Status != stRet {
				problems = append(problems, "undecided: "+retDesc(out))
				break
			}
			tv := out[0].Ret.(*TupleV)
			_, errNil := tv.E[2].(nilV)
			wantErr := false
			for _, n := range req {
				if _, ok := hashCtors[n]; !ok {
					wantErr = true
				}
			}
			if wantErr {
				if errNil {
					problems = append(problems, fmt.Sprintf("%v: an unknown algorithm name is not an error", req))
				}
				if _, ok := tv.E[0].(nilV); !ok {
					problems = append(problems, fmt.Sprintf("%v: a stream is returned together with the error", req))
				}
				continue
			}
			if !errNil {
				problems = append(problems, fmt.Sprintf("%v: unexpected error", req))
				continue
			}
			// returned hashers
			var hashers []Val
			if v.multi {
				hashers, _, _ = m.sliceElems(out[0], tv.E[1])
			} else {
				hashers = []Val{tv.E[1]}
			}
			if len(hashers) != len(req) {
				problems = append(problems, fmt.Sprintf("%v: %d hashers returned", req, len(hashers)))
				continue
			}
			ids := map[int]bool{}
			for i, h := range hashers {
				hp, ok := h.(Ptr)
				if !ok {
					problems = append(problems, fmt.Sprintf("%v: hasher %d is not a *Hasher", req, i))
					continue
				}
				ids[hp.Obj] = true
				hv, _ := out[0].load(hp)
				sv, _ := hv.(*StructV)
				if sv == nil {
					continue
				}
				nm, _ := sv.F[fieldIndex(structOf(hasherT), "name")].(string)
				tag := hashTag(out[0], sv.F[fieldIndex(structOf(hasherT), "hash")])
				if nm != req[i] || !strings.HasPrefix(tag, hashCtors[req[i]]+"#") {
					problems = append(problems, fmt.Sprintf("%v: hasher %d is named %q and uses %s, want %q", req, i, nm, tag, req[i]))
				}
			}
			// what is fed
			fed := map[int]bool{}
			targetFed := false
			feedList := func(list []Val) {
				for _, e := range list {
					if iv, ok := e.(IfaceV); ok {
						e = iv.V
					}
					if pp, ok := e.(Ptr); ok {
						fed[pp.Obj] = true
						if pp.Obj == tid {
							targetFed = true
						}
					}
				}
			}
			retStream := tv.E[0]
			isObj := func(v Val, name string) bool {
				if iv, ok := v.(IfaceV); ok {
					v = iv.V
				}
				if pp, ok := v.(Ptr); ok {
					if o, ok := out[0].Heap[pp.Obj]; ok {
						if ov, ok := o.V.(OpaqueV); ok {
							return strings.HasPrefix(ov.Name, name)
						}
					}
				}
				return false
			}
			if v.reader {
				if len(tee) != 1 || !isObj(retStream, "TeeReader") {
					problems = append(problems, fmt.Sprintf("%v: the returned reader is not one io.TeeReader", req))
					continue
				}
				if iv, ok := tee[0][0].(IfaceV); !ok || iv.V != (Ptr{Obj: tid}) {
					problems = append(problems, fmt.Sprintf("%v: the TeeReader does not read from the caller's reader", req))
				}
				sink := tee[0][1]
				if isObj(sink, "MultiWriter") && len(multiArgs) == 1 {
					feedList(multiArgs[0])
				} else {
					feedList([]Val{sink})
				}
				targetFed = true
			} else {
				if len(multiArgs) != 1 || !isObj(retStream, "MultiWriter") {
					problems = append(problems, fmt.Sprintf("%v: the returned writer is not one io.MultiWriter", req))
					continue
				}
				feedList(multiArgs[0])
			}
			for id := range ids {
				if !fed[id] {
					problems = append(problems, fmt.Sprintf("%v: a returned hasher is not fed the stream", req))
				}
			}
			if !targetFed {
				problems = append(problems, fmt.Sprintf("%v: the caller's writer is not in the MultiWriter: the bytes are not passed through", req))
			}
		}
		undec := ""
		for _, pr := range problems {
			if strings.HasPrefix(pr, "undecided") {
				undec = pr
			}
		}
		if undec != "" {
			r.undecided(key, pos, undec)
		} else {
			sort.Strings(problems)
			r.check(len(problems) == 0, key, pos, fmt.Sprintf("%d request lists: hashers returned in order, all fed, target fed; unknown name -> error only", len(reqs)), strings.Join(problems, "; "))
		}
	}
}

func c12Close(p *Prog, rp *Report) {
	r := rp.Rule("C12-CLOSE", "verifier: Write forwards; first Close fails iff digest != recorded hash; FileHashFromHasher copies name, hex digest, size", 3)
	if w := p.Method("control", "verifier", "Write"); w != nil {
		t := newTermer()
		ok := false
		for _, ret := range returnsReachable(w.Blocks[0]) {
			ok = t.term(ret.Results[0]) == "p0.h.Write(p1)#0" && t.term(ret.Results[1]) == "p0.h.Write(p1)#1"
		}
		r.check(ok, "control.verifier.Write", p.Pos(w.Pos()), "forwards to the hash", "does not return h.Write(p)")
	} else {
		r.bad("control.verifier.Write", "", "method not found", nil)
	}
	if c := p.Method("control", "verifier", "Close"); c != nil {
		vT := p.Named("control", "verifier")
		var problems []string
		for _, closed := range []bool{false} {
			for _, equal := range []bool{true, false} {
				m := NewMachine(p, nil)
				installStringModels(m)
				cnt := 0
				installHashCtors(m, &cnt)
				var eqArgs []string
				m.Hooks["bytes.Equal"] = func(m *Machine, st *State, call *ssa.CallCommon, args []Val) ([]Val, bool) {
					for _, a := range args {
						eqArgs = append(eqArgs, fmtVal(a, func(i int) string { return "" }))
					}
					return []Val{equal}, true
				}
				m.InvokeHook = func(m *Machine, st *State, call *ssa.CallCommon, recv Val, args []Val) ([]Val, bool) {
					if call.Method.Name() == "Sum" {
						if _, isNil := args[0].(nilV); !isNil {
							return []Val{OpaqueV{"Sum(non-nil)"}}, true
						}
						return []Val{OpaqueV{"digest"}}, true
					}
					return nil, false
				}
				st := initState(m, "hashio", "control")
				hid := st.alloc(types.Typ[types.Int], OpaqueV{"hash"})
				id := st.alloc(vT, mkStruct(vT, map[string]Val{"h": IfaceV{T: types.NewPointer(types.Typ[types.Int]), V: Ptr{Obj: hid}}, "want": OpaqueV{"recorded"}, "closed": closed}))
				st.push(c, []Val{Ptr{Obj: id}}, nil)
				out := m.Run(st)
				if len(out) != 1 || out[0].Status != stRet {
					problems = append(problems, "undecided: "+retDesc(out))
					continue
				}
				_, errNil := out[0].Ret.(nilV)
				if errNil != equal {
					problems = append(problems, fmt.Sprintf("digest equal to the recorded hash: %v, but Close returns error nil: %v", equal, errNil))
				}
				if len(eqArgs) != 2 || !(eqArgs[0] == "opaque(digest)" && eqArgs[1] == "opaque(recorded)" || eqArgs[1] == "opaque(digest)" && eqArgs[0] == "opaque(recorded)") {
					problems = append(problems, fmt.Sprintf("Close compares %v, want h.Sum(nil) with the recorded hash", eqArgs))
				}
			}
		}
		undec := ""
		for _, pr := range problems {
			if strings.HasPrefix(pr, "undecided") {
				undec = pr
			}
		}
		if undec != "" {
			r.undecided("control.verifier.Close", p.Pos(c.Pos()), undec)
		} else {
			r.check(len(problems) == 0, "control.verifier.Close", p.Pos(c.Pos()), "first Close: error iff !bytes.Equal(h.Sum(nil), want)", strings.Join(problems, "; "))
		}
	} else {
		r.bad("control.verifier.Close", "", "method not found", nil)
	}
	if f := p.Func("control", "FileHashFromHasher"); f != nil {
		hasherT := p.Named("hashio", "Hasher")
		fhT := p.Named("control", "FileHash")
		m := NewMachine(p, nil)
		installStringModels(m)
		m.Hooks["fmt.Sprintf"] = func(m *Machine, st *State, call *ssa.CallCommon, args []Val) ([]Val, bool) {
			format, _ := args[0].(string)
			elems, _, ok := m.sliceElems(st, args[1])
			if ok && len(elems) == 1 {
				e := elems[0]
				if iv, isI := e.(IfaceV); isI {
					e = iv.V
				}
				if o, isO := e.(OpaqueV); isO && (format == "%x" || format == "%02x") {
					return []Val{OpaqueV{"hex(" + o.Name + ")"}}, true
				}
			}
			return sprintfModel(m, st, call, args)
		}
		m.InvokeHook = func(m *Machine, st *State, call *ssa.CallCommon, recv Val, args []Val) ([]Val, bool) {
			if call.Method.Name() == "Sum" {
				if _, isNil := args[0].(nilV); isNil {
					return []Val{OpaqueV{"digest"}}, true
				}
				return []Val{OpaqueV{"digest-appended-to-something"}}, true
			}
			return nil, false
		}
		st := initState(m, "control", "hashio")
		hid := st.alloc(types.Typ[types.Int], OpaqueV{"hash"})
		hv := mkStruct(hasherT, map[string]Val{"name": "sha256", "size": int64(4242), "hash": IfaceV{T: types.NewPointer(types.Typ[types.Int]), V: Ptr{Obj: hid}}})
		st.push(f, []Val{"pool/f.deb", hv}, nil)
		out := m.Run(st)
		if len(out) != 1 || out[0].Status != stRet {
			r.undecided("control.FileHashFromHasher", p.Pos(f.Pos()), retDesc(out))
		} else {
			sv, _ := st.Ret.(*StructV)
			fs := structOf(fhT)
			get := func(n string) string { return valStr(sv.F[fieldIndex(fs, n)]) }
			ok := sv != nil && get("Algorithm") == `"sha256"` && get("Hash") == "hex(digest)" && get("Size") == "4242" && get("Filename") == `"pool/f.deb"`
			detail := ""
			if sv != nil {
				detail = fmt.Sprintf("Algorithm=%s Hash=%s Size=%s Filename=%s", get("Algorithm"), get("Hash"), get("Size"), get("Filename"))
			}
			r.check(ok, "control.FileHashFromHasher", p.Pos(f.Pos()), "Algorithm = hasher.Name(), Hash = hex(hasher.Sum(nil)), Size = hasher.Size(), Filename = path", "entry built from a sha256 hasher of 4242 bytes: "+detail)
		}
	} else {
		r.bad("control.FileHashFromHasher", "", "function not found", nil)
	}
}
