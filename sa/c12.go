package main

// C12 — checksums computed and verified by the library.

import (
	"encoding/hex"
	"fmt"
	"go/types"
	"sort"
	"strings"

	"golang.org/x/tools/go/ssa"
)

func init() { register("C12", checkC12) }

var hashCtors = map[string]string{"md5": "crypto/md5.New", "sha1": "crypto/sha1.New", "sha256": "crypto/sha256.New", "sha512": "crypto/sha512.New"}

// installHashCtors: every hash constructor returns a fresh opaque hash tagged
// with its constructor.
func installHashCtors(m *Machine, counter *int) {
	hashIface := types.NewPointer(types.Typ[types.Int])
	for _, pkg := range []string{"crypto/md5", "crypto/sha1", "crypto/sha256", "crypto/sha512"} {
		for _, fn := range []string{"New", "New224", "New384", "New512_224", "New512_256"} {
			name := pkg + "." + fn
			m.Hooks[name] = func(m *Machine, st *State, call *ssa.CallCommon, args []Val) ([]Val, bool) {
				*counter++
				id := st.alloc(types.Typ[types.Int], OpaqueV{fmt.Sprintf("%s#%d", name, *counter)})
				return []Val{IfaceV{T: hashIface, V: Ptr{Obj: id}}}, true
			}
		}
	}
	m.Hooks["encoding/hex.DecodeString"] = func(m *Machine, st *State, call *ssa.CallCommon, args []Val) ([]Val, bool) {
		s, ok := args[0].(string)
		if !ok {
			return nil, false
		}
		b, err := hex.DecodeString(s)
		if err != nil {
			return []Val{&TupleV{E: []Val{nilV{}, IfaceV{T: errType, V: "bad hex"}}}}, true
		}
		arr := &ArrayV{}
		for _, x := range b {
			arr.E = append(arr.E, int64(x))
		}
		id := st.alloc(types.NewArray(types.Typ[types.Uint8], int64(len(b))), arr)
		return []Val{&TupleV{E: []Val{SliceV{Obj: id, Len_: len(b), Cap: len(b)}, nilV{}}}}, true
	}
}

// hashTag returns the constructor tag of an opaque hash value.
func hashTag(st *State, v Val) string {
	if iv, ok := v.(IfaceV); ok {
		v = iv.V
	}
	if p, ok := v.(Ptr); ok {
		if o, ok := st.Heap[p.Obj]; ok {
			if ov, ok := o.V.(OpaqueV); ok {
				return ov.Name
			}
			if sv, ok := o.V.(*StructV); ok { // *Hasher: look inside
				for _, f := range sv.F {
					if t := hashTag(st, f); t != "" {
						return t
					}
				}
			}
		}
	}
	return ""
}

func checkC12(p *Prog, rp *Report) {
	defer stateRule(p, rp, "C12-STATE", p.Func("hashio", "GetHash"), p.Func("hashio", "NewHasher"), p.Method("hashio", "Hasher", "Write"), p.Method("hashio", "Hasher", "Sum"), p.Func("hashio", "NewHasherWriter"), p.Func("hashio", "NewHasherWriters"), p.Func("hashio", "NewHasherReader"), p.Func("hashio", "NewHasherReaders"), p.Method("control", "FileHash", "Verifier"), p.Func("control", "FileHashFromHasher"))
	rp.Explanation = "C12-ALG: hashio.GetHash interpreted abstractly maps md5/sha1/sha256/sha512 to a FRESH crypto/md5|sha1|sha256|sha512.New() and every other name to an error. C12-VERIFIER: FileHash.Verifier picks the constructor of the entry's own Algorithm for every algorithm name and every hash length, returns the hex decoding error, and reaches no log.Fatal/os.Exit/panic. C12-FIELDTYPE: every Files / Checksums-* struct field has the element type whose UnmarshalControl tags entries with that field's algorithm. C12-COUNT: Hasher.Write forwards the slice unchanged, adds the returned count to size, returns the hash's results; Size/Sum/Name return the fields; NewHasher wires name and GetHash(name). C12-FANOUT: the four constructors return one hasher per requested name in order, all of them plus the target in the MultiWriter (writers) or the target as TeeReader source (readers); an unknown name yields an error and nothing else. C12-CLOSE: verifier.Write forwards; the first Close fails iff !bytes.Equal(h.Sum(nil), want); FileHashFromHasher copies Name(), hex of Sum(nil), Size(). C12-BEST: Checksums() preference table. (The hash oracle's digest changes with every write, so a digest taken in mid-stream cannot stand in for a later one; the recorded hash is also tried in upper-case hex.)"
	rp.NotDecided = "the digest implementations and hash.Hash's independence of chunking (standard library); io.MultiWriter / io.TeeReader pass bytes through unchanged (standard library)."
	rp.Trusted = []string{"go/types, go/ssa", "crypto/md5, sha1, sha256, sha512; hash.Hash", "io.MultiWriter, io.TeeReader, bytes.Equal, encoding/hex"}

	// ---- C12-ALG
	alg := rp.Rule("C12-ALG", "algorithm table of hashio.GetHash", 1)
	gh := p.Func("hashio", "GetHash")
	if gh == nil {
		alg.bad("hashio.GetHash", "", "function not found", nil)
	} else {
		names := map[string]bool{"md5": true, "sha1": true, "sha256": true, "sha512": true, "sha224": true, "sha384": true, "": true, "MD5": true, "sha": true, "sha-256": true}
		for _, l := range stringLiterals(reachableRepoFuncs(gh)) {
			if !strings.Contains(l, " ") {
				names[l] = true
			}
		}
		var problems []string
		counter := 0
		for _, n := range keysOf(names) {
			var tags []string
			m := NewMachine(p, nil)
			installStringModels(m)
			installHashCtors(m, &counter)
			st := initState(m, "hashio", "control")
			for rep := 0; rep < 2 && st.Status != stStuck; rep++ { // twice in one program state: the hash must be fresh every time
				st.Status = stRun
				st.push(gh, []Val{n}, nil)
				out := m.Run(st)
				if len(out) != 1 || out[0].Status != stRet {
					problems = append(problems, fmt.Sprintf("GetHash(%q): undecided: %s", n, retDesc(out)))
					break
				}
				tv := out[0].Ret.(*TupleV)
				_, errNil := tv.E[1].(nilV)
				tag := hashTag(out[0], tv.E[0])
				if iv, ok := tv.E[0].(IfaceV); ok {
					tag += fmt.Sprintf("@%v", iv.V)
				}
				tags = append(tags, tag)
				want, known := hashCtors[n]
				switch {
				case known && (!errNil || !strings.HasPrefix(tag, want+"#")):
					problems = append(problems, fmt.Sprintf("GetHash(%q) gives %q (error nil: %v), want a %s()", n, tag, errNil, want))
				case !known && errNil:
					problems = append(problems, fmt.Sprintf("GetHash(%q) succeeds (with %q): unknown algorithm names must be errors", n, tag))
				}
			}
			if st.Status == stStuck {
				problems = append(problems, "undecided: "+st.Msg)
			}
			if len(tags) == 2 && tags[0] != "" && tags[0] == tags[1] {
				problems = append(problems, fmt.Sprintf("GetHash(%q) returns the same hash object on every call: concurrent hashers/verifiers would share one digest state", n))
			}
		}
		undec := false
		for _, pr := range problems {
			if strings.Contains(pr, "undecided") {
				undec = true
			}
		}
		if undec {
			alg.undecided("hashio.GetHash", p.Pos(gh.Pos()), problems[0])
		} else {
			alg.check(len(problems) == 0, "hashio.GetHash", p.Pos(gh.Pos()), fmt.Sprintf("%d names decided: the four algorithms map to fresh instances of their constructors, everything else is an error", len(names)), strings.Join(problems, "; "))
		}
	}

	// ---- C12-VERIFIER
	ver := rp.Rule("C12-VERIFIER", "FileHash.Verifier uses the entry's own algorithm; no process exit", 2)
	vf := p.Method("control", "FileHash", "Verifier")
	fhT := p.Named("control", "FileHash")
	if vf == nil || fhT == nil {
		ver.bad("control.FileHash.Verifier", "", "method not found", nil)
	} else {
		var problems []string
		counter := 0
		hashes := map[int]string{16: strings.Repeat("ab", 16), 20: strings.Repeat("cd", 20), 32: strings.Repeat("ef", 32), 64: strings.Repeat("01", 64), 3: "abcdef"}
		algos := []string{"md5", "sha1", "sha256", "sha512", "sha3", ""}
		rows := 0
		for _, a := range algos {
			for _, hl := range []int{16, 20, 32, 64, 3} {
				m := NewMachine(p, nil)
				installStringModels(m)
				installHashCtors(m, &counter)
				st := initState(m, "hashio", "control")
				id := st.alloc(fhT, mkStruct(fhT, map[string]Val{"Algorithm": a, "Hash": hashes[hl], "Filename": "f"}))
				st.push(vf, []Val{Ptr{Obj: id}}, nil)
				out := m.Run(st)
				rows++
				if len(out) != 1 || out[0].Status != stRet {
					problems = append(problems, fmt.Sprintf("undecided: Verifier of a %q entry: %s", a, retDesc(out)))
					continue
				}
				tv := out[0].Ret.(*TupleV)
				_, errNil := tv.E[1].(nilV)
				want, known := hashCtors[a]
				if !known {
					if errNil {
						problems = append(problems, fmt.Sprintf("a %q entry gets a verifier", a))
					}
					continue
				}
				if !errNil {
					problems = append(problems, fmt.Sprintf("a %s entry with a %d byte hash gets no verifier", a, hl))
					continue
				}
				tag := hashTag(out[0], tv.E[0])
				if iv, ok := tv.E[0].(IfaceV); ok {
					if pp, ok := iv.V.(Ptr); ok {
						if sv, ok := out[0].Heap[pp.Obj].V.(*StructV); ok {
							tag = ""
							for _, f := range sv.F {
								if t := hashTag(out[0], f); t != "" {
									tag = t
								}
							}
						}
					}
				}
				if !strings.HasPrefix(tag, want+"#") {
					problems = append(problems, fmt.Sprintf("a %s entry whose recorded hash is %d bytes long is verified with %s, want %s (the entry's own algorithm decides, not the hash length)", a, hl, tag, want))
				}
			}
		}
		// a recorded hash that names another algorithm ("md5:<hex>", "SHA1:<hex>", ...) must not change the
		// algorithm of the entry: it is not hexadecimal and is refused, or the entry's own algorithm is used
		for _, lab := range []string{"md5:" + strings.Repeat("ab", 16), "MD5:" + strings.Repeat("ab", 16), "sha1:" + strings.Repeat("cd", 20), "SHA512:" + strings.Repeat("01", 64)} {
			m := NewMachine(p, nil)
			installHashCtors(m, &counter)
			st := initState(m, "hashio", "control")
			id := st.alloc(fhT, mkStruct(fhT, map[string]Val{"Algorithm": "sha256", "Hash": lab, "Filename": "f"}))
			st.push(vf, []Val{Ptr{Obj: id}}, nil)
			out := m.Run(st)
			if len(out) != 1 || out[0].Status != stRet {
				problems = append(problems, "undecided: Verifier of an entry with a labelled hash: "+retDesc(out))
				continue
			}
			tv := out[0].Ret.(*TupleV)
			if _, errNil := tv.E[1].(nilV); !errNil {
				continue
			}
			tag := ""
			if iv, ok := tv.E[0].(IfaceV); ok {
				if pp, ok := iv.V.(Ptr); ok {
					if sv, ok := out[0].Heap[pp.Obj].V.(*StructV); ok {
						for _, f := range sv.F {
							if t := hashTag(out[0], f); t != "" {
								tag = t
							}
						}
					}
				}
			}
			if !strings.HasPrefix(tag, "crypto/sha256.New#") {
				problems = append(problems, fmt.Sprintf("a sha256 entry whose recorded hash is spelled %q is verified with %s: the spelling of the hash replaces the entry's algorithm", clip(lab, 24), tag))
			}
		}
		// invalid hex
		{
			m := NewMachine(p, nil)
			installStringModels(m)
			installHashCtors(m, &counter)
			st := initState(m, "hashio", "control")
			id := st.alloc(fhT, mkStruct(fhT, map[string]Val{"Algorithm": "sha256", "Hash": "zz"}))
			st.push(vf, []Val{Ptr{Obj: id}}, nil)
			out := m.Run(st)
			if len(out) == 1 && out[0].Status == stRet {
				if _, errNil := out[0].Ret.(*TupleV).E[1].(nilV); errNil {
					problems = append(problems, "a hash that is not hexadecimal gets a verifier")
				}
			}
		}
		undec := ""
		for _, pr := range problems {
			if strings.HasPrefix(pr, "undecided") {
				undec = pr
			}
		}
		if undec != "" {
			ver.undecided("control.FileHash.Verifier", p.Pos(vf.Pos()), undec)
		} else {
			n := len(problems)
			if n > 3 {
				problems = append(problems[:3], fmt.Sprintf("... %d rows wrong in all", n))
			}
			ver.check(n == 0, "control.FileHash.Verifier", p.Pos(vf.Pos()), fmt.Sprintf("%d rows (6 algorithm names x 5 hash lengths) + invalid hex", rows), strings.Join(problems, "; "))
		}
		fs, softFs := hardSites(fatalSites([]*ssa.Function{vf, p.Func("control", "FileHashFromHasher")}))
		if len(fs) == 0 {
			ver.ok("control.FileHash.Verifier:no-exit", p.Pos(vf.Pos()), "no log.Fatal / os.Exit / unguarded panic reachable"+softNote(softFs))
		}
		for _, s := range fs {
			ver.bad("control.FileHash.Verifier:no-exit", p.Pos(s.Pos), s.What+" reachable: asking for a verifier can terminate the process", nil)
		}
	}

	// ---- C12-FIELDTYPE
	ft := rp.Rule("C12-FIELDTYPE", "checksum fields have the element type of their algorithm", 12)
	tagRule(p, ft, func(doc string, ti tagInfo, kind string) bool {
		if strings.HasPrefix(kind, "checksum lines") || kind == kH5 {
			return true
		}
		// a field typed as a file hash list under any other name is suspicious too
		if sl, ok := ti.Type.Underlying().(*types.Slice); ok {
			if n, ok := sl.Elem().(*types.Named); ok && strings.HasSuffix(n.Obj().Name(), "FileHash") {
				return true
			}
		}
		return false
	})

	c12Count(p, rp)
	c12Fanout(p, rp)
	c12Close(p, rp)

	best := rp.Rule("C12-BEST", "Checksums(): Sha256 entries if any, else Sha512, else none", 1)
	tmp := NewReport("C10", rp.Tier)
	c10Access(p, tmp)
	for _, r := range tmp.Rules {
		for _, in := range r.Instances {
			if in.Construct == "control.BestChecksums.Checksums" {
				best.Instances = append(best.Instances, in)
			}
		}
	}
}

// c12Env is an interpretation context for the hashing wrappers: hash constructors yield opaque hash
// objects; Write / Sum / Reset / Size / BlockSize on them are oracles (the next Write returns writeN and
// writeErr; Sum returns an opaque digest naming its argument).
type c12Env struct {
	p           *Prog
	m           *Machine
	st          *State
	writeN      int64
	writeErr    bool
	writes      []string // "hashtag|argument" per hash.Write
	sums        []string
	digest      []byte // what the hash oracle's Sum appends
	fixedDigest bool   // Sum returns exactly digest (otherwise digest + number of writes so far)
}

func newC12Env(p *Prog) *c12Env {
	e := &c12Env{p: p, writeN: 5, digest: []byte{0xab, 0xcd, 0xef}}
	m := NewMachine(p, nil)
	installStringModels(m)
	cnt := 0
	installHashCtors(m, &cnt)
	none := func(i int) string { return "" }
	m.Hooks["fmt.Sprintf"] = func(m *Machine, st *State, call *ssa.CallCommon, args []Val) ([]Val, bool) {
		format, _ := args[0].(string)
		elems, _, ok := m.sliceElems(st, args[1])
		if ok && len(elems) == 1 {
			x := elems[0]
			if iv, isI := x.(IfaceV); isI {
				x = iv.V
			}
			if format == "%x" || format == "%02x" {
				if bs, _, ok := m.sliceElems(st, x); ok && len(bs) > 0 {
					var sb strings.Builder
					for _, b := range bs {
						if n, isInt := b.(int64); isInt {
							fmt.Fprintf(&sb, "%02x", n)
						}
					}
					return []Val{sb.String()}, true
				}
			}
		}
		return sprintfModel(m, st, call, args)
	}
	m.InvokeHook = func(m *Machine, st *State, call *ssa.CallCommon, recv Val, args []Val) ([]Val, bool) {
		tag := hashTag(st, recv)
		if tag == "" {
			return nil, false
		}
		switch call.Method.Name() {
		case "Write":
			e.writes = append(e.writes, tag+"|"+fmtVal(args[0], none))
			if e.writeErr {
				return []Val{&TupleV{E: []Val{e.writeN, IfaceV{T: errType, V: "hash write failed"}}}}, true
			}
			return []Val{&TupleV{E: []Val{e.writeN, nilV{}}}}, true
		case "Sum":
			arg := "nil"
			if _, isNil := args[0].(nilV); !isNil {
				arg = fmtVal(args[0], none)
				if pre, many, ok := m.sliceElems(st, args[0]); ok && !many && len(pre) == 0 {
					arg = "nil" // an empty prefix (buf[:0]): the result is the digest alone, as with nil
				}
			}
			e.sums = append(e.sums, tag+"|"+arg)
			var out []byte
			if pre, _, ok := m.sliceElems(st, args[0]); ok {
				for _, b := range pre {
					if n, isInt := b.(int64); isInt {
						out = append(out, byte(n))
					}
				}
			}
			// the digest of a real hash depends on everything written so far: the oracle's depends on the count
			d := append(append([]byte(nil), e.digest...), byte(len(e.writes)))
			if e.fixedDigest {
				d = e.digest
			}
			return []Val{byteSliceVal(st, append(out, d...))}, true
		case "Reset":
			return []Val{nil}, true
		case "Size":
			return []Val{int64(32)}, true
		case "BlockSize":
			return []Val{int64(64)}, true
		}
		return nil, false
	}
	// io.WriteString(w, s) on a hash object is a Write of the bytes of s (real hashes have no WriteString)
	m.Hooks["io.WriteString"] = func(m *Machine, st *State, call *ssa.CallCommon, args []Val) ([]Val, bool) {
		tag := hashTag(st, args[0])
		str, isStr := args[1].(string)
		if tag == "" || !isStr {
			return nil, false
		}
		e.writes = append(e.writes, tag+"|"+fmtVal(byteSliceVal(st, []byte(str)), none))
		n := e.writeN
		if int64(len(str)) < n {
			n = int64(len(str))
		}
		if e.writeErr {
			return []Val{&TupleV{E: []Val{n, IfaceV{T: errType, V: "hash write failed"}}}}, true
		}
		return []Val{&TupleV{E: []Val{n, nilV{}}}}, true
	}
	e.m = m
	e.st = initState(m, "hashio", "control")
	return e
}

func (e *c12Env) call(fn *ssa.Function, args ...Val) (Val, string) {
	if fn == nil {
		return nil, "undecided: function not found"
	}
	e.st.Status = stRun
	e.st.Frames = nil
	e.st.push(fn, args, nil)
	out := e.m.Run(e.st)
	if len(out) != 1 {
		return nil, fmt.Sprintf("undecided: %d paths", len(out))
	}
	switch out[0].Status {
	case stRet:
		return e.st.Ret, ""
	case stPanic:
		return nil, "PANIC: " + out[0].Msg
	}
	return nil, "undecided: " + out[0].Msg
}

// method calls the method `name` of the dynamic type of an interface value or of *T for a pointer.
func (e *c12Env) method(recv Val, t types.Type, name string, args ...Val) (Val, string) {
	if iv, ok := recv.(IfaceV); ok {
		recv, t = iv.V, iv.T
	}
	fn := e.p.SSA.LookupMethod(t, nil, name)
	if fn == nil {
		if pt, ok := t.(*types.Pointer); ok {
			if n, ok := pt.Elem().(*types.Named); ok {
				fn = e.p.SSA.LookupMethod(t, n.Obj().Pkg(), name)
			}
		}
	}
	if fn == nil {
		return nil, "undecided: no method " + name + " on " + t.String()
	}
	return e.call(fn, append([]Val{recv}, args...)...)
}

func errIsNil(v Val) bool { _, ok := v.(nilV); return ok }

func c12Count(p *Prog, rp *Report) {
	r := rp.Rule("C12-COUNT", "Hasher counts and forwards exactly the bytes written", 5)
	hasherT := p.Named("hashio", "Hasher")
	nh := p.Func("hashio", "NewHasher")
	if hasherT == nil || nh == nil {
		r.bad("hashio.NewHasher", "", "hashio.Hasher / NewHasher not found", nil)
		return
	}
	pos := p.Pos(nh.Pos())
	hpT := types.NewPointer(hasherT)
	report := func(key string, problems []string, okMsg string) {
		fillProblems(r, key, pos, problems, okMsg)
	}
	// NewHasher
	{
		var problems []string
		e := newC12Env(p)
		ret, why := e.call(nh, "sha256")
		if why != "" {
			problems = append(problems, why)
		} else if tv, ok := ret.(*TupleV); !ok || len(tv.E) != 2 || !errIsNil(tv.E[1]) || errIsNil(tv.E[0]) {
			problems = append(problems, "NewHasher(\"sha256\") does not return a hasher")
		} else {
			name, why := e.method(tv.E[0], hpT, "Name")
			size, why2 := e.method(tv.E[0], hpT, "Size")
			if why != "" || why2 != "" {
				problems = append(problems, why+why2)
			} else if name != "sha256" || size != int64(0) {
				problems = append(problems, fmt.Sprintf("a new sha256 hasher has Name %v and Size %v, want sha256 and 0", name, size))
			}
			if tag := hashTag(e.st, tv.E[0]); !strings.HasPrefix(tag, "crypto/sha256.New#") {
				problems = append(problems, "a new sha256 hasher wraps "+tag)
			}
		}
		e = newC12Env(p)
		if ret, why := e.call(nh, "crc32"); why != "" {
			problems = append(problems, why)
		} else if tv, ok := ret.(*TupleV); !ok || errIsNil(tv.E[1]) || !errIsNil(tv.E[0]) {
			problems = append(problems, "NewHasher of an unknown algorithm does not return (nil, error)")
		}
		report("hashio.NewHasher", problems, "name = the requested name, hash = GetHash(name), size = 0; unknown name -> (nil, error)")
	}
	// other ways into a hasher: io.MultiWriter (of which the fan-out writers are made), io.WriteString and io.Copy
	// hand strings to an element through WriteString when it has that method, so it has to count like Write
	if e := newC12Env(p); types.NewMethodSet(hpT).Lookup(hasherT.Obj().Pkg(), "WriteString") != nil {
		var problems []string
		ret, why := e.call(nh, "sha512")
		tv, _ := ret.(*TupleV)
		if why != "" || tv == nil || !errIsNil(tv.E[1]) {
			problems = append(problems, "undecided: NewHasher: "+why)
		} else {
			h := tv.E[0]
			e.writeN = 5
			e.method(h, hpT, "Write", byteSliceVal(e.st, []byte("hello")))
			e.writeN = 3
			res, why := e.method(h, hpT, "WriteString", "abc")
			if why != "" {
				problems = append(problems, "undecided: WriteString: "+strings.TrimPrefix(why, "undecided: "))
			} else {
				if wt, _ := res.(*TupleV); wt == nil || wt.E[0] != int64(3) || !errIsNil(wt.E[1]) {
					problems = append(problems, "WriteString of 3 bytes does not return (3, nil) as the hash reported")
				}
				if len(e.writes) != 2 {
					problems = append(problems, fmt.Sprintf("after Write and WriteString the hash was written %d times, want 2", len(e.writes)))
				}
				if sz, why := e.method(h, hpT, "Size"); why != "" {
					problems = append(problems, why)
				} else if sz != int64(8) {
					problems = append(problems, fmt.Sprintf("after Write of 5 bytes and WriteString of 3 bytes Size() = %v, want 8: io.MultiWriter hands strings (io.WriteString, io.Copy from a strings.Reader) to WriteString, so the fan-out writers under-report the length", sz))
				}
			}
		}
		report("hashio.Hasher.WriteString", problems, "counts and forwards like Write")
	}
	// Write / Size / Sum / Name
	for _, acc := range []string{"Write", "Size", "Sum", "Name"} {
		var problems []string
		e := newC12Env(p)
		ret, why := e.call(nh, "sha512")
		tv, _ := ret.(*TupleV)
		if why != "" || tv == nil || !errIsNil(tv.E[1]) {
			r.undecided("hashio.Hasher."+acc, pos, "NewHasher: "+why)
			continue
		}
		h := tv.E[0]
		data := byteSliceVal(e.st, []byte("hello"))
		none := func(i int) string { return "" }
		switch acc {
		case "Write":
			e.writeN = 5
			res, why := e.method(h, hpT, "Write", data)
			if why != "" {
				problems = append(problems, why)
				break
			}
			wt, _ := res.(*TupleV)
			if wt == nil || wt.E[0] != int64(5) || !errIsNil(wt.E[1]) {
				problems = append(problems, fmt.Sprintf("Write of 5 bytes returns %s, want (5, nil) as the hash reported", fmtVal(res, none)))
			}
			if len(e.writes) != 1 || !strings.HasSuffix(e.writes[0], "|"+fmtVal(data, none)) {
				problems = append(problems, fmt.Sprintf("the hash is written %v, want the caller's slice once", e.writes))
			}
			e.writeErr, e.writeN = true, 2
			res, why = e.method(h, hpT, "Write", data)
			if wt, _ := res.(*TupleV); why != "" || wt == nil || errIsNil(wt.E[1]) || wt.E[0] != int64(2) {
				problems = append(problems, "an error (and short count) of the hash's Write is not returned unchanged"+why)
			}
		case "Size":
			e.writeN = 5
			e.method(h, hpT, "Write", data)
			e.writeN = 3
			e.method(h, hpT, "Write", byteSliceVal(e.st, []byte("abc")))
			if sz, why := e.method(h, hpT, "Size"); why != "" {
				problems = append(problems, why)
			} else if sz != int64(8) {
				problems = append(problems, fmt.Sprintf("after writes of 5 and 3 bytes Size() = %v, want 8", sz))
			}
		case "Sum":
			if d, why := e.method(h, hpT, "Sum", nilV{}); why != "" {
				problems = append(problems, why)
			} else if deepRender(e.st, d, 0) != "[i171 i205 i239 i0]" {
				problems = append(problems, "Sum(nil) does not return the hash's digest: "+deepRender(e.st, d, 0))
			}
			// a digest taken in mid-stream does not freeze later ones
			e.method(h, hpT, "Write", data)
			if d, why := e.method(h, hpT, "Sum", nilV{}); why != "" {
				problems = append(problems, why)
			} else if deepRender(e.st, d, 0) != "[i171 i205 i239 i1]" {
				problems = append(problems, "Sum(nil) after a further Write does not return the hash's current digest (the digest taken before the Write is returned again): "+deepRender(e.st, d, 0))
			}
			pre := byteSliceVal(e.st, []byte{1, 2})
			if d, why := e.method(h, hpT, "Sum", pre); why != "" {
				problems = append(problems, why)
			} else if deepRender(e.st, d, 0) != "[i1 i2 i171 i205 i239 i1]" {
				problems = append(problems, "Sum(b) does not hand b to the hash: "+deepRender(e.st, d, 0))
			}
		case "Name":
			if n, why := e.method(h, hpT, "Name"); why != "" {
				problems = append(problems, why)
			} else if n != "sha512" {
				problems = append(problems, fmt.Sprintf("Name() = %v, want sha512", n))
			}
		}
		report("hashio.Hasher."+acc, problems, map[string]string{
			"Write": "hash.Write(p) once with the caller's slice; count and error returned as the hash reported them",
			"Size":  "Size() is the sum of the counts the hash reported",
			"Sum":   "Sum(b) = hash.Sum(b)",
			"Name":  "Name() is the requested algorithm",
		}[acc])
	}
}

func c12Fanout(p *Prog, rp *Report) {
	r := rp.Rule("C12-FANOUT", "hashing writers/readers: every requested hasher is returned and fed; the target is fed", 4)
	hasherT := p.Named("hashio", "Hasher")
	type variant struct {
		name   string
		multi  bool
		reader bool
	}
	for _, v := range []variant{{"NewHasherWriter", false, false}, {"NewHasherWriters", true, false}, {"NewHasherReader", false, true}, {"NewHasherReaders", true, true}} {
		fn := p.Func("hashio", v.name)
		key := "hashio." + v.name
		if fn == nil {
			r.bad(key, "", "function not found", nil)
			continue
		}
		pos := p.Pos(fn.Pos())
		reqs := [][]string{{"sha256"}, {"md5", "sha512"}, {"sha1", "sha256", "md5"}, {"sha256", "nope"}, {}}
		if !v.multi {
			reqs = [][]string{{"md5"}, {"sha512"}, {"nope"}}
		}
		var problems []string
		for _, req := range reqs {
			counter := 0
			m := NewMachine(p, nil)
			installStringModels(m)
			installHashCtors(m, &counter)
			var multiArgs [][]Val
			var tee [][]Val
			ifT := types.NewPointer(types.Typ[types.Int])
			m.Hooks["io.MultiWriter"] = func(m *Machine, st *State, call *ssa.CallCommon, args []Val) ([]Val, bool) {
				elems, many, ok := m.sliceElems(st, args[0])
				if !ok || many {
					return nil, false
				}
				multiArgs = append(multiArgs, elems)
				id := st.alloc(types.Typ[types.Int], OpaqueV{fmt.Sprintf("MultiWriter#%d", len(multiArgs))})
				return []Val{IfaceV{T: ifT, V: Ptr{Obj: id}}}, true
			}
			m.Hooks["io.TeeReader"] = func(m *Machine, st *State, call *ssa.CallCommon, args []Val) ([]Val, bool) {
				tee = append(tee, args)
				id := st.alloc(types.Typ[types.Int], OpaqueV{"TeeReader"})
				return []Val{IfaceV{T: ifT, V: Ptr{Obj: id}}}, true
			}
			st := initState(m, "hashio", "control")
			tid := st.alloc(types.Typ[types.Int], OpaqueV{"target"})
			target := IfaceV{T: ifT, V: Ptr{Obj: tid}}
			var args []Val
			if v.multi {
				args = []Val{strSlice(st, req), target}
			} else {
				args = []Val{req[0], target}
			}
			st.push(fn, args, nil)
			out := m.Run(st)
			if len(out) != 1 || out[0].Status != stRet {
				problems = append(problems, "undecided: "+retDesc(out))
				break
			}
			tv := out[0].Ret.(*TupleV)
			_, errNil := tv.E[2].(nilV)
			wantErr := false
			for _, n := range req {
				if _, ok := hashCtors[n]; !ok {
					wantErr = true
				}
			}
			if wantErr {
				if errNil {
					problems = append(problems, fmt.Sprintf("%v: an unknown algorithm name is not an error", req))
				}
				if _, ok := tv.E[0].(nilV); !ok {
					problems = append(problems, fmt.Sprintf("%v: a stream is returned together with the error", req))
				}
				continue
			}
			if !errNil {
				problems = append(problems, fmt.Sprintf("%v: unexpected error", req))
				continue
			}
			// returned hashers
			var hashers []Val
			if v.multi {
				hashers, _, _ = m.sliceElems(out[0], tv.E[1])
			} else {
				hashers = []Val{tv.E[1]}
			}
			if len(hashers) != len(req) {
				problems = append(problems, fmt.Sprintf("%v: %d hashers returned", req, len(hashers)))
				continue
			}
			ids := map[int]bool{}
			for i, h := range hashers {
				hp, ok := h.(Ptr)
				if !ok {
					problems = append(problems, fmt.Sprintf("%v: hasher %d is not a *Hasher", req, i))
					continue
				}
				ids[hp.Obj] = true
				hv, _ := out[0].load(hp)
				sv, _ := hv.(*StructV)
				if sv == nil {
					continue
				}
				nm, _ := sv.F[fieldIndex(structOf(hasherT), roleField(hasherT, "string", "name"))].(string)
				tag := hashTag(out[0], sv.F[fieldIndex(structOf(hasherT), roleField(hasherT, "hash.Hash", "hash"))])
				if nm != req[i] || !strings.HasPrefix(tag, hashCtors[req[i]]+"#") {
					problems = append(problems, fmt.Sprintf("%v: hasher %d is named %q and uses %s, want %q", req, i, nm, tag, req[i]))
				}
			}
			// what is fed
			fed := map[int]bool{}
			targetFed := false
			feedList := func(list []Val) {
				for _, e := range list {
					if iv, ok := e.(IfaceV); ok {
						e = iv.V
					}
					if pp, ok := e.(Ptr); ok {
						fed[pp.Obj] = true
						if pp.Obj == tid {
							targetFed = true
						}
					}
				}
			}
			retStream := tv.E[0]
			isObj := func(v Val, name string) bool {
				if iv, ok := v.(IfaceV); ok {
					v = iv.V
				}
				if pp, ok := v.(Ptr); ok {
					if o, ok := out[0].Heap[pp.Obj]; ok {
						if ov, ok := o.V.(OpaqueV); ok {
							return strings.HasPrefix(ov.Name, name)
						}
					}
				}
				return false
			}
			if v.reader {
				if len(tee) != 1 || !isObj(retStream, "TeeReader") {
					// not the library's tee: the stream's own Read is interpreted against a scripted source
					problems = append(problems, streamBehaviour(p, m, out[0], retStream, true, tid, hashers, multiArgs, fmt.Sprint(req))...)
					continue
				}
				if iv, ok := tee[0][0].(IfaceV); !ok || iv.V != (Ptr{Obj: tid}) {
					problems = append(problems, fmt.Sprintf("%v: the TeeReader does not read from the caller's reader", req))
				}
				sink := tee[0][1]
				if isObj(sink, "MultiWriter") && len(multiArgs) == 1 {
					feedList(multiArgs[0])
				} else {
					feedList([]Val{sink})
				}
				targetFed = true
			} else {
				if len(multiArgs) != 1 || !isObj(retStream, "MultiWriter") {
					// not the library's fan-out writer: the stream's own Write is interpreted against a recording target
					problems = append(problems, streamBehaviour(p, m, out[0], retStream, false, tid, hashers, multiArgs, fmt.Sprint(req))...)
					continue
				}
				feedList(multiArgs[0])
			}
			for id := range ids {
				if !fed[id] {
					problems = append(problems, fmt.Sprintf("%v: a returned hasher is not fed the stream", req))
				}
			}
			if !targetFed {
				problems = append(problems, fmt.Sprintf("%v: the caller's writer is not in the MultiWriter: the bytes are not passed through", req))
			}
		}
		undec := ""
		for _, pr := range problems {
			if strings.HasPrefix(pr, "undecided") {
				undec = pr
			}
		}
		if undec != "" {
			r.undecided(key, pos, undec)
		} else {
			sort.Strings(problems)
			r.check(len(problems) == 0, key, pos, fmt.Sprintf("%d request lists: hashers returned in order, all fed, target fed; unknown name -> error only", len(reqs)), strings.Join(problems, "; "))
		}
	}
}

func c12Close(p *Prog, rp *Report) {
	r := rp.Rule("C12-CLOSE", "verifier: Write forwards; first Close fails iff digest != recorded hash; FileHashFromHasher copies name, hex digest, size", 3)
	fhT := p.Named("control", "FileHash")
	ver := p.Method("control", "FileHash", "Verifier")
	if fhT == nil || ver == nil {
		r.bad("control.FileHash.Verifier", "", "method not found", nil)
		return
	}
	pos := p.Pos(ver.Pos())
	none := func(i int) string { return "" }
	mkVerifier := func(e *c12Env) (Val, string) {
		id := e.st.alloc(fhT, mkStruct(fhT, map[string]Val{"Algorithm": "sha256", "Hash": "00ff10", "Size": int64(3), "Filename": "f"}))
		ret, why := e.call(ver, Ptr{Obj: id})
		if why != "" {
			return nil, why
		}
		tv, ok := ret.(*TupleV)
		if !ok || len(tv.E) != 2 || !errIsNil(tv.E[1]) || errIsNil(tv.E[0]) {
			return nil, "undecided: Verifier() of a sha256 entry does not return a verifier"
		}
		return tv.E[0], ""
	}
	// Write
	{
		var problems []string
		e := newC12Env(p)
		v, why := mkVerifier(e)
		if why != "" {
			problems = append(problems, why)
		} else {
			data := byteSliceVal(e.st, []byte("hello"))
			e.writeN = 5
			res, why := e.method(v, nil, "Write", data)
			wt, _ := res.(*TupleV)
			switch {
			case why != "":
				problems = append(problems, why)
			case wt == nil || wt.E[0] != int64(5) || !errIsNil(wt.E[1]):
				problems = append(problems, "Write does not return what the hash's Write returned: "+fmtVal(res, none))
			case len(e.writes) != 1 || !strings.HasPrefix(e.writes[0], "crypto/sha256.New#") || !strings.HasSuffix(e.writes[0], "|"+fmtVal(data, none)):
				problems = append(problems, fmt.Sprintf("the bytes written to the verifier reach the hash as %v, want the caller's slice once, to the sha256 hash", e.writes))
			}
			e.writeErr, e.writeN = true, 1
			res, why = e.method(v, nil, "Write", data)
			if wt, _ := res.(*TupleV); why != "" || wt == nil || errIsNil(wt.E[1]) {
				problems = append(problems, "an error of the hash's Write is swallowed"+why)
			}
		}
		fillProblems(r, "control.verifier.Write", pos, problems, "forwards the caller's slice to the hash of the entry's algorithm and returns its results")
	}
	// Close
	{
		var problems []string
		for _, equal := range []bool{true, false} {
			e := newC12Env(p)
			e.fixedDigest = true
			if equal {
				e.digest = []byte{0x00, 0xff, 0x10}
			}
			v, why := mkVerifier(e)
			if why != "" {
				problems = append(problems, why)
				break
			}
			res, why := e.method(v, nil, "Close")
			if why != "" {
				problems = append(problems, why)
				break
			}
			if errIsNil(res) != equal {
				problems = append(problems, fmt.Sprintf("digest equal to the recorded hash: %v, but the first Close returns error nil: %v", equal, errIsNil(res)))
			}
			if len(e.sums) != 1 || !strings.HasSuffix(e.sums[0], "|nil") {
				problems = append(problems, fmt.Sprintf("Close asks the hash for %v, want one Sum(nil)", e.sums))
			}
		}
		// a recorded hash of another length than the digest never matches (digest 00ff10 against 00ff1000, 00ff and the empty string)
		if len(problems) == 0 {
			for _, recorded := range []string{"00ff1000", "00ff", "00ff100000000000", ""} {
				e := newC12Env(p)
				e.fixedDigest = true
				e.digest = []byte{0x00, 0xff, 0x10}
				id := e.st.alloc(fhT, mkStruct(fhT, map[string]Val{"Algorithm": "sha256", "Hash": recorded, "Size": int64(3), "Filename": "f"}))
				ret, why := e.call(ver, Ptr{Obj: id})
				tv, _ := ret.(*TupleV)
				if why != "" {
					problems = append(problems, why)
					break
				}
				if tv == nil || !errIsNil(tv.E[1]) {
					continue // refusing such an entry outright is fine
				}
				res, why := e.method(tv.E[0], nil, "Close")
				if why != "" {
					problems = append(problems, why)
					break
				}
				if errIsNil(res) {
					problems = append(problems, fmt.Sprintf("the recorded hash %q (another length than the digest 00ff10) is accepted for a stream whose digest is 00ff10", recorded))
				}
			}
		}
		// the recorded hash may be spelled in upper case
		if len(problems) == 0 {
			e := newC12Env(p)
			e.fixedDigest = true
			e.digest = []byte{0xab, 0xcd, 0xef}
			id := e.st.alloc(fhT, mkStruct(fhT, map[string]Val{"Algorithm": "sha256", "Hash": "ABcdEF", "Size": int64(3), "Filename": "f"}))
			ret, why := e.call(ver, Ptr{Obj: id})
			tv, _ := ret.(*TupleV)
			if why != "" || tv == nil || !errIsNil(tv.E[1]) {
				problems = append(problems, "Verifier() rejects an entry whose recorded hash is spelled in upper-case hex"+why)
			} else if res, why := e.method(tv.E[0], nil, "Close"); why != "" {
				problems = append(problems, why)
			} else if !errIsNil(res) {
				problems = append(problems, "an entry whose recorded hash is spelled ABcdEF rejects the stream whose digest is abcdef")
			}
		}
		fillProblems(r, "control.verifier.Close", pos, problems, "first Close: error iff the digest (Sum(nil)) differs from the recorded hash (a digest equal to it and a different one)")
	}
	// FileHashFromHasher
	if f := p.Func("control", "FileHashFromHasher"); f != nil {
		var problems []string
		e := newC12Env(p)
		hasherT := p.Named("hashio", "Hasher")
		ret, why := e.call(p.Func("hashio", "NewHasher"), "sha256")
		tv, _ := ret.(*TupleV)
		if why != "" || tv == nil || hasherT == nil || !errIsNil(tv.E[1]) {
			problems = append(problems, "undecided: NewHasher: "+why)
		} else {
			e.writeN = 42
			e.method(tv.E[0], types.NewPointer(hasherT), "Write", byteSliceVal(e.st, []byte(strings.Repeat("x", 42))))
			var harg Val = tv.E[0]
			if _, isPtr := f.Signature.Params().At(1).Type().(*types.Pointer); !isPtr {
				if pp, ok := tv.E[0].(Ptr); ok {
					harg, _ = e.st.load(pp)
				}
			}
			res, why := e.call(f, "pool/f.deb", cloneVal(harg))
			sv, _ := res.(*StructV)
			if why != "" || sv == nil {
				problems = append(problems, "undecided: FileHashFromHasher: "+why)
			} else {
				fs := structOf(fhT)
				get := func(n string) string { return valStr(sv.F[fieldIndex(fs, n)]) }
				if !(get("Algorithm") == `"sha256"` && (get("Hash") == `"abcdef01"` || get("Hash") == `"abcdef"`) && get("Size") == "42" && get("Filename") == `"pool/f.deb"`) {
					problems = append(problems, fmt.Sprintf("entry built from a sha256 hasher that counted 42 bytes: Algorithm=%s Hash=%s Size=%s Filename=%s", get("Algorithm"), get("Hash"), get("Size"), get("Filename")))
				}
			}
		}
		fillProblems(r, "control.FileHashFromHasher", p.Pos(f.Pos()), problems, "Algorithm = hasher.Name(), Hash = hex(hasher.Sum(nil)), Size = hasher.Size(), Filename = path")
	} else {
		r.bad("control.FileHashFromHasher", "", "function not found", nil)
	}
}

// streamBehaviour decides a hashing reader / writer that is not io.TeeReader / io.MultiWriter by interpreting its
// own Read / Write: the caller's stream is a scripted oracle, the hash objects record what they are given, an
// io.MultiWriter inside is trusted to hand its argument to each of its elements. Every chunk must reach the
// caller unchanged and every returned hasher exactly once, whatever error accompanies it.
func streamBehaviour(p *Prog, m *Machine, st0 *State, stream Val, reader bool, tid int, hashers []Val, multiArgs [][]Val, req string) []string {
	iv, ok := stream.(IfaceV)
	if !ok {
		return []string{req + ": the returned stream is neither the library's tee / fan-out nor a value with methods"}
	}
	name := "Write"
	if reader {
		name = "Read"
	}
	fn := p.SSA.LookupMethod(iv.T, nil, name)
	if fn == nil {
		if pt, isPtr := iv.T.(*types.Pointer); isPtr {
			if n, isNamed := pt.Elem().(*types.Named); isNamed {
				fn = p.SSA.LookupMethod(iv.T, n.Obj().Pkg(), name)
			}
		}
	}
	if fn == nil || fn.Blocks == nil || !inRepoOrRef(fn) {
		return []string{fmt.Sprintf("undecided: %s: the returned stream has the dynamic type %s whose %s is not repository code", req, iv.T, name)}
	}
	var tags []string
	for _, h := range hashers {
		tags = append(tags, hashTag(st0, h))
	}
	type chunk struct {
		data string
		err  bool // the caller's stream reports an error together with (readers) / instead of part of (writers) this chunk
	}
	var problems []string
	for _, script := range [][]chunk{{{"abc", false}, {"de", false}}, {{"abc", false}, {"de", true}}, {{"", true}}, {{"abcdefgh", false}}} {
		st := st0.Clone()
		st.Status = stRun
		st.Frames = nil
		fed := map[string]string{} // hash tag -> bytes received
		passed := ""               // writers: bytes the caller's writer received
		step := 0
		prev := m.InvokeHook
		m.InvokeHook = func(m *Machine, s *State, call *ssa.CallCommon, recv Val, args []Val) ([]Val, bool) {
			rv := recv
			if x, isI := rv.(IfaceV); isI {
				rv = x.V
			}
			pp, isPtr := rv.(Ptr)
			bytesOf := func(v Val) (string, bool) {
				elems, many, ok := m.sliceElems(s, v)
				if !ok || many {
					return "", false
				}
				var sb strings.Builder
				for _, e := range elems {
					n, isInt := e.(int64)
					if !isInt {
						return "", false
					}
					sb.WriteByte(byte(n))
				}
				return sb.String(), true
			}
			if isPtr && pp.Obj == tid {
				switch call.Method.Name() {
				case "Read":
					buf, isSl := args[0].(SliceV)
					if !isSl || buf.Abs || step >= len(script) {
						return nil, false
					}
					c := script[step]
					step++
					n := len(c.data)
					if n > buf.Len_ {
						n = buf.Len_
					}
					for i := 0; i < n; i++ {
						s.store(Ptr{Obj: buf.Obj, Path: pathAppend(buf.Path, buf.Lo+i)}, int64(c.data[i]))
					}
					var e Val = nilV{}
					if c.err {
						e = eofVal
					}
					return []Val{&TupleV{E: []Val{int64(n), e}}}, true
				case "Write":
					b, ok := bytesOf(args[0])
					if !ok {
						return nil, false
					}
					if step < len(script) && script[step].err {
						k := len(b) / 2
						passed += b[:k]
						return []Val{&TupleV{E: []Val{int64(k), IfaceV{T: errType, V: "write failed"}}}}, true
					}
					passed += b
					return []Val{&TupleV{E: []Val{int64(len(b)), nilV{}}}}, true
				}
				return nil, false
			}
			if tag := hashTag(s, recv); tag != "" && call.Method.Name() == "Write" {
				if strings.HasPrefix(tag, "MultiWriter#") {
					var k int
					fmt.Sscanf(tag, "MultiWriter#%d", &k)
					b, ok := bytesOf(args[0])
					if !ok || k < 1 || k > len(multiArgs) {
						return nil, false
					}
					for _, e := range multiArgs[k-1] {
						if t := hashTag(s, e); t != "" {
							fed[t] += b
						}
						if x, isI := e.(IfaceV); isI {
							e = x.V
						}
						if ep, isP := e.(Ptr); isP && ep.Obj == tid {
							passed += b
						}
					}
					return []Val{&TupleV{E: []Val{int64(len(b)), nilV{}}}}, true
				}
				b, ok := bytesOf(args[0])
				if !ok {
					return nil, false
				}
				fed[tag] += b
				return []Val{&TupleV{E: []Val{int64(len(b)), nilV{}}}}, true
			}
			if prev != nil {
				return prev(m, s, call, recv, args)
			}
			return nil, false
		}
		desc := func() string {
			var parts []string
			for _, c := range script {
				parts = append(parts, fmt.Sprintf("%q/err=%v", c.data, c.err))
			}
			return strings.Join(parts, ", ")
		}
		want := ""
		undecided := ""
		for i, c := range script {
			step = i
			st.Status = stRun
			st.Frames = nil
			var arg Val
			bufID := 0
			if reader {
				arr := &ArrayV{}
				for k := 0; k < 8; k++ {
					arr.E = append(arr.E, int64(0))
				}
				bufID = st.alloc(types.NewArray(types.Typ[types.Uint8], 8), arr)
				arg = SliceV{Obj: bufID, Len_: 8, Cap: 8}
			} else {
				arg = byteSliceVal(st, []byte(c.data))
			}
			st.push(fn, []Val{iv.V, arg}, nil)
			outs := m.Run(st)
			if len(outs) != 1 || outs[0].Status != stRet {
				undecided = retDesc(outs)
				break
			}
			tv, isT := st.Ret.(*TupleV)
			if !isT || len(tv.E) != 2 {
				undecided = "unexpected result shape"
				break
			}
			n, _ := tv.E[0].(int64)
			_, errNil := tv.E[1].(nilV)
			if reader {
				want += c.data
				got := ""
				for k := 0; k < int(n) && k < 8; k++ {
					b, _ := st.Heap[bufID].V.(*ArrayV).E[k].(int64)
					got += string(rune(byte(b)))
				}
				if got != c.data || errNil == c.err {
					problems = append(problems, fmt.Sprintf("%s: source chunks [%s]: Read %d returns %q (error nil: %v), the source delivered %q (error: %v)", req, desc(), i+1, got, errNil, c.data, c.err))
				}
			} else {
				if c.err {
					if errNil {
						problems = append(problems, fmt.Sprintf("%s: a failing write of the caller's writer is reported as success", req))
					}
					break
				}
				want += c.data
				if int(n) != len(c.data) || !errNil {
					problems = append(problems, fmt.Sprintf("%s: Write(%q) returns (%d, error nil: %v)", req, c.data, n, errNil))
				}
			}
		}
		m.InvokeHook = prev
		if undecided != "" {
			return []string{"undecided: " + req + ": " + name + " of the returned stream: " + undecided}
		}
		for i, t := range tags {
			if fed[t] != want {
				problems = append(problems, fmt.Sprintf("%s: chunks [%s]: hasher %d received %q, the stream carried %q", req, desc(), i, fed[t], want))
			}
		}
		if !reader && passed != want && !script[len(script)-1].err {
			problems = append(problems, fmt.Sprintf("%s: chunks [%s]: the caller's writer received %q, want %q", req, desc(), passed, want))
		}
	}
	return uniq(problems)
}
