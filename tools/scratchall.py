#!/usr/bin/env python3
"""Runs every seeded change and every refactoring against the checks on scratch copies of /repo's HEAD, in parallel
(never touches /repo's working tree; uses bin/gdsa-dev when present, else bin/gdsa).

  scratchall.py seeds [N]          every seed under /verif/seeded: the check of its property (and of meta.also_check)
                                   must exit 1 with a [violated] line
  scratchall.py refactorings [N]   every refactoring: the check of its property and of every other property anchored
                                   in a package it touches must exit 0
N = number of parallel jobs (default 6). Results: one line per item that is NOT as it should be, then a summary."""
import glob, json, os, re, subprocess, sys
from concurrent.futures import ThreadPoolExecutor

PKG = {'version': ['C01', 'C02', 'C03', 'C06', 'C18'], 'dependency': ['C04', 'C05', 'C06', 'C10', 'C18', 'C19'],
       'control': ['C07', 'C08', 'C09', 'C10', 'C11', 'C12', 'C18', 'C19', 'C20'], 'deb': ['C13', 'C14', 'C15', 'C16'],
       'changelog': ['C17', 'C18'], 'hashio': ['C12'], 'internal': ['C20']}


def run(patch, props):
    env = dict(os.environ, MAXL='400', CLIP='260')
    p = subprocess.run(['/verif/tools/scratchtest.sh', patch] + props, env=env, capture_output=True, text=True)
    return p.stdout + p.stderr


def seeds():
    jobs = []
    for d in sorted(glob.glob('/verif/seeded/C*-*')):
        name = os.path.basename(d)
        meta = json.load(open(d + '/meta.json'))
        props = sorted(set([name.split('-')[0]] + meta.get('also_check', [])))
        jobs.append((name, d + '/patch.diff', props))
    return jobs


def refactorings():
    jobs = []
    for d in sorted(glob.glob('/verif/refactorings/C*-*')):
        name = os.path.basename(d)
        own = name.split('-')[0]
        dirs = set(re.findall(r'^\+\+\+ b/([a-z]+)/', open(d + '/patch.diff').read(), re.M))
        props = [own] + sorted({p for x in dirs for p in PKG.get(x, [])} - {own})
        jobs.append((name, d + '/patch.diff', props))
    return jobs


def main():
    mode = sys.argv[1]
    n = int(sys.argv[2]) if len(sys.argv) > 2 else 6
    jobs = seeds() if mode == 'seeds' else refactorings()
    only = sys.argv[3:]  # optional: property ids; only items whose checks include one of them are run, and the result file is left alone
    if only:
        jobs = [j for j in jobs if set(j[2]) & set(only)]
    bad = 0
    last = open('/verif/tools/scratchall.%s.last' % mode, 'w') if not only else open('/dev/null', 'w')
    with ThreadPoolExecutor(max_workers=n) as ex:
        for (name, patch, props), out in zip(jobs, ex.map(lambda j: run(j[1], j[2]), jobs)):
            tiers = re.findall(r'^(C\d\d) tier=\S+ .*violations=(\d+)', out, re.M)
            first = next((l.strip() for l in out.splitlines() if '[violated]' in l), '') or next((l.strip() for l in out.splitlines() if '[undecided]' in l), '')
            if mode == 'seeds':
                last.write('%s\t%s\n' % (name, first[:300] if first else 'NOT REPORTED'))
            else:
                last.write('%s\t%s\n' % (name, ('ALARM: ' + first[:260]) if any(v != '0' for _, v in tiers) else ('silent against ' + ' '.join(c for c, _ in tiers)) if len(tiers) == len(props) else 'INCOMPLETE'))
            last.flush()
            if mode == 'seeds':
                caught = '[violated]' in out
                if not caught:
                    bad += 1
                    und = '[undecided]' in out
                    print(name, 'NOT CAUGHT' + (' (undecided only)' if und else ''), out.strip()[:300].replace('\n', ' | '), flush=True)
            else:
                alarms = [c for c, v in tiers if v != '0']
                if alarms or len(tiers) != len(props):
                    bad += 1
                    print(name, 'ALARM' if alarms else 'INCOMPLETE', alarms, out.strip()[:400].replace('\n', ' | '), flush=True)
    print('%s: %d items, %d not as they should be' % (mode, len(jobs), bad))


main()
