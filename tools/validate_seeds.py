#!/usr/bin/env python3
"""Validates every seeded change under /verif/seeded/<id>/ against the CURRENT /repo:
   - the patch applies, the library builds, the pinned tests still pass;
   - the demonstration fails with the patch and passes without it;
   - which of the registered checks report it (exit 1).
   Results are written into each meta.json under "validation" and summarised in seeded/SUMMARY.md.
   Nothing is ever committed to /repo; the tree is restored after every step."""
import json, os, subprocess, sys, shutil, glob, re

ENV = dict(os.environ, GOFLAGS="-mod=mod", GOPROXY="off", GOSUMDB="off", GOTOOLCHAIN="local", GOWORK="off")
REPO = "/repo"

def sh(cmd, cwd=None, timeout=900):
    p = subprocess.run(cmd, shell=True, cwd=cwd, env=ENV, capture_output=True, text=True, errors='replace', timeout=timeout)
    return p.returncode, p.stdout + p.stderr

def clean():
    # patches may add files: remove everything untracked, not only the demonstration
    sh("git checkout -q -- . && git clean -fdq", REPO)
    for f in glob.glob(REPO + "/**/zz_seeddemo_test.go", recursive=True):
        os.remove(f)

def main():
    only = sys.argv[1:]
    rc, out = sh("git status --porcelain", REPO)
    if out.strip():
        print("repo dirty:", out); sys.exit(2)
    rows = []
    for d in sorted(glob.glob("/verif/seeded/C*-*")):
        name = os.path.basename(d)
        if only and name not in only:
            continue
        prop = name.split("-")[0]
        meta = json.load(open(d + "/meta.json"))
        v = {}
        clean()
        rc, out = sh("git apply --check %s/patch.diff" % d, REPO)
        v["applies"] = rc == 0
        if rc != 0:
            v["note"] = out.strip()[:300]
            meta["validation"] = v; json.dump(meta, open(d + "/meta.json", "w"), indent=1)
            rows.append((name, v)); continue
        sh("git apply %s/patch.diff" % d, REPO)
        rc, out = sh("go build ./... && go test -vet=off -count=1 ./...", REPO)
        v["builds_and_pinned_tests_pass"] = rc == 0
        demo_dir = meta.get("demo_dir", "").strip("./") or re.search(r"(control|deb|dependency|version|changelog|hashio|internal)", open(d + "/demo_test.go").readline()).group(1)
        demo_dir = demo_dir.split("/")[-1] if demo_dir.startswith("/") else demo_dir
        dst = os.path.join(REPO, demo_dir, "zz_seeddemo_test.go")
        shutil.copy(d + "/demo_test.go", dst)
        rc, out = sh("go test -vet=off -count=1 -timeout 60s ./%s/" % demo_dir, REPO, timeout=300)
        v["demo_fails_with_patch"] = rc != 0
        os.remove(dst)
        # which checks catch it
        caught = []
        for p in sorted(set([prop] + meta.get("also_check", []))):
            rc, out = sh("./bin/gdsa check %s" % p, "/verif")
            if rc != 0:
                first = [l for l in out.splitlines() if l.startswith("  ")]
                caught.append({"check": p, "report": (first[0].strip()[:400] if first else out[-300:])})
        v["caught_by"] = caught
        clean()
        shutil.copy(d + "/demo_test.go", dst)
        rc, out = sh("go test -vet=off -count=1 -timeout 60s ./%s/" % demo_dir, REPO, timeout=300)
        v["demo_passes_without_patch"] = rc == 0
        os.remove(dst)
        clean()
        meta["validation"] = v
        meta["demo_dir"] = demo_dir
        json.dump(meta, open(d + "/meta.json", "w"), indent=1)
        rows.append((name, v))
        print(name, {k: (val if k != "caught_by" else [c["check"] for c in val]) for k, val in v.items()})
    # restore evidence for the unchanged tree
    return rows

if __name__ == "__main__":
    main()
