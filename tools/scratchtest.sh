#!/bin/bash
# usage: scratchtest.sh <patch.diff> <Cnn> [Cnn...]   — applies the patch to a scratch copy of /repo's HEAD
# (never touches /repo), runs the named checks on it with the development binary, removes the copy.
set -u
patch=$1; shift
d=$(mktemp -d /tmp/scratch.XXXXXX)
git -C /repo archive HEAD | tar -x -C "$d"
if [ -n "${PRE:-}" ] && ! (cd "$d" && patch -p1 -s < "$PRE"); then echo "PRE PATCH FAILED"; rm -rf "$d"; exit 2; fi
if ! (cd "$d" && patch -p1 -s < "$patch"); then echo "PATCH FAILED"; rm -rf "$d"; exit 2; fi
v=$(mktemp -d /tmp/scratch-verif.XXXXXX); mkdir -p $v/evidence; cp /verif/known-findings.txt $v/; ln -s /verif/sa $v/sa
bin=${BIN:-/verif/bin/gdsa-dev}; [ -x $bin ] || bin=/verif/bin/gdsa
for c in "$@"; do
  GDSA_REPO=$d GDSA_NO_CANARY=1 GDSA_VERIF=$v $bin check $c 2>&1 | grep -a "violated\|undecided\|^C[0-9][0-9] tier" | cut -c1-${CLIP:-400} | awk -v m=${MAXL:-6} 'NR<=m || /tier=/'
done
rm -rf "$d" "$v"
