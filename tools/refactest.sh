#!/bin/bash
# usage: tools/refactest.sh [name ...]   Applies each behaviour-preserving refactoring under /verif/refactorings to /repo,
# runs the check of its property (must exit 0: no false alarm), undoes it. XREF=1: also the checks of every other
# property anchored in a package the refactoring touches.
cd /repo || exit 2
if ! git diff --quiet; then echo "repo dirty"; exit 2; fi
names="$@"; full=0; [ -z "$names" ] && { names=$(ls /verif/refactorings); full=1; }
res=$(mktemp)
for n in $names; do
  d=/verif/refactorings/$n; p=${n%%-*}
  if ! git apply "$d/patch.diff" 2>/tmp/apply.err; then echo "$n APPLY-FAILED $(head -1 /tmp/apply.err)"; git checkout -q -- .; continue; fi
  if ! (GOFLAGS=-mod=mod GOPROXY=off GOSUMDB=off GOTOOLCHAIN=local GOWORK=off go test -vet=off -count=1 ./... >/tmp/rt.out 2>&1); then echo "$n PINNED-TESTS-FAIL"; git checkout -q -- .; git clean -fdq; continue; fi
  out=$(cd /verif && ./bin/gdsa check $p 2>&1); rc=$?
  if [ $rc -eq 0 ]; then echo "$n silent (ok)" | tee -a $res; else echo "$n FALSE-ALARM: $(echo "$out" | grep '^  ' | head -${RLINES:-1} | cut -c1-300)" | tee -a $res; fi
  if [ -n "${XREF:-}" ]; then
    # the checks of the other properties anchored in the packages this refactoring touches must stay silent too
    others=""
    for pk in $(grep '^+++ b/' "$d/patch.diff" | sed 's#^+++ b/\([a-z]*\)/.*#\1#' | sort -u); do
      case $pk in
        version) others="$others C01 C02 C03 C06 C18";; dependency) others="$others C04 C05 C06 C10 C18 C19";;
        control) others="$others C07 C08 C09 C10 C11 C12 C18 C19 C20";; deb) others="$others C13 C14 C15 C16";;
        changelog) others="$others C17 C18";; hashio) others="$others C12";; internal) others="$others C20";;
      esac
    done
    for q in $(echo $others | tr ' ' '\n' | sort -u); do
      [ "$q" = "$p" ] && continue
      out=$(cd /verif && ./bin/gdsa check $q 2>&1); rc=$?
      [ $rc -eq 0 ] || echo "$n FALSE-ALARM of $q: $(echo "$out" | grep '^  ' | head -${RLINES:-1} | cut -c1-300)" | tee -a $res
    done
  fi
  git checkout -q -- . ; git clean -fdq
done
[ $full -eq 1 ] && cp $res /verif/tools/refactest.last
rm -f $res
