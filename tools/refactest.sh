#!/bin/bash
# usage: tools/refactest.sh [name ...]   Applies each behaviour-preserving refactoring under /verif/refactorings to /repo,
# runs the check of its property (must exit 0: no false alarm), undoes it.
cd /repo || exit 2
if ! git diff --quiet; then echo "repo dirty"; exit 2; fi
names="$@"; full=0; [ -z "$names" ] && { names=$(ls /verif/refactorings); full=1; }
res=$(mktemp)
for n in $names; do
  d=/verif/refactorings/$n; p=${n%%-*}
  if ! git apply "$d/patch.diff" 2>/tmp/apply.err; then echo "$n APPLY-FAILED $(head -1 /tmp/apply.err)"; git checkout -q -- .; continue; fi
  if ! (GOFLAGS=-mod=mod GOPROXY=off GOSUMDB=off GOTOOLCHAIN=local GOWORK=off go test -vet=off -count=1 ./... >/tmp/rt.out 2>&1); then echo "$n PINNED-TESTS-FAIL"; git checkout -q -- .; git clean -fdq; continue; fi
  out=$(cd /verif && ./bin/gdsa check $p 2>&1); rc=$?
  if [ $rc -eq 0 ]; then echo "$n silent (ok)" | tee -a $res; else echo "$n FALSE-ALARM: $(echo "$out" | grep '^  ' | head -${RLINES:-1} | cut -c1-300)" | tee -a $res; fi
  git checkout -q -- . ; git clean -fdq
done
[ $full -eq 1 ] && cp $res /verif/tools/refactest.last
rm -f $res
