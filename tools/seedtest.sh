#!/bin/bash
# usage: tools/seedtest.sh <seed-dir-name> [prop ...]   e.g. tools/seedtest.sh C01-a C01 C02
# Applies the seeded change to /repo, runs the given checks (default: the seed's property), undoes the change.
set -u
seed=$1; shift
dir=/verif/seeded/$seed
props="$@"
[ -z "$props" ] && props=${seed%%-*}
cd /repo || exit 2
if ! git diff --quiet; then echo "repo dirty"; exit 2; fi
if ! git apply --3way "$dir/patch.diff" 2>/tmp/apply.err; then
  if ! git apply "$dir/patch.diff" 2>>/tmp/apply.err; then echo "APPLY-FAILED $seed: $(head -3 /tmp/apply.err)"; git checkout -q -- . ; git reset -q; exit 3; fi
fi
git reset -q
cd /verif
for p in $props; do
  out=$(./bin/gdsa check $p 2>&1); rc=$?
  echo "== $seed on $p: exit=$rc"
  echo "$out" | grep -v '^VIOLATION' | head -${SEEDLINES:-6}
done
git -C /repo checkout -q -- .
git -C /repo status --short | head -3
