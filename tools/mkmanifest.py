#!/usr/bin/env python3
"""Regenerates /verif/MANIFEST.json from the table below and validates it."""
import json, subprocess, sys

AI = "abstract interpretation over go/ssa"
claimed = {
 "C01": ("proof", AI + ": product automaton of the run comparator with a dpkg reference over lazily revealed input strings (index cursors and suffix views); weight table; Compare composition table; bounded mode (exact pairs vs the reference) when the comparator leaves the tape model; a limits table (parts of 300 bytes, numbers beyond 32 and 64 bits) through Compare as a whole, also on a GOARCH=386 load with 32 bit arithmetic", "3.C01",
         "Sign-equivalence with a transliteration of dpkg's verrevcmp is decided for ALL pairs of strings over the version alphabet (unbounded length) by exploring the finite product of the two abstract machines; the weight table and Compare's lexicographic composition are decided exhaustively. Proof modulo the trusted base. If a future comparator leaves the finite-state abstraction the check falls back to a bounded comparison and says so in the evidence."),
 "C02": ("proof", AI + ": equivalence to a reference total preorder (same product as C01, same bounded mode), Compare composition table, sort adapter tables (Less on 100 concrete pairs), the same limits table as C01", "3.C02",
         "Reflexivity, antisymmetry, transitivity and congruence are inherited from sign-equality with the reference order (a lexicographic order on canonical keys, hence a total preorder); the adapter methods are decided by interpretation."),
 "C03": ("other", AI + " of Parse / Unmarshal* / String / Marshal* on a generated family of version strings against a Policy 5.6.12 reference (accept/reject and fields), character predicates on every byte, reset of all fields, codec identity, render->parse round trip; GOARCH=386 load for the epoch width", "3.C03",
         "Accept/reject and the parsed fields, alphabets, reset, codecs and the render/parse round trip are decided on a family of strings generated from the grammar's token classes and the positions the parser distinguishes; strings outside the family are not decided."),
 "C04": ("other", AI + ": dependency.Parse explored on a lazily revealed input of unbounded length into a finite transition system; regular-language inclusion / emptiness against Policy 7.1 languages; token-effect events; error-discipline dataflow; bounded mode (grammar words, malformed words and every short string, exact) when the parser leaves the model; exact fields with names of 15 to 257 bytes", "3.C04",
         "Acceptance of a conservative Policy grammar and rejection of twelve malformed classes are decided for inputs of every length on the extracted automaton; token hygiene (no blank inside a token, no empty token), the operator set, error propagation and totality are decided; exactness of the produced AST is not."),
 "C05": ("other", "field read/write sets over the SSA call trees, conversion scan, events of the parser transition system, " + AI + " of parse/render/parse on architecture names and on a generated family of fields", "3.C05",
         "Renderer field coverage, byte fidelity, and absence of stored-but-unrendered entries are universal; the architecture and field fixpoints are decided on exhaustive component combinations / a generated family."),
 "C06": ("proof", AI + " on a universe exhaustive by data independence: complete decision tables with callee oracles; loop-shape check for induction over list length; wildcard names parsed by ParseArch and asked against concrete names of four ABIs; SatisfiedBy also end to end on numbers that are no versions; concrete architectures when Is / Matches are inlined", "3.C06",
         "Complete decision tables of Is/IsWildcard/Matches/GetPossibilities/GetAllPossibilities/GetSubstvars/SatisfiedBy against the property's specification, exhaustive up to renaming."),
 "C11": ("other", AI + " of NewParagraphReader / NewDecoder / Signer over scenarios (plain/signed x four keyrings x every outcome of clearsign.Decode, io.ReadAll and CheckDetachedSignature), readers and byte slices carrying provenance, reader objects keeping their identity (a reader the verification has drained must not be the one left for parsing); two clearsigned messages back to back; armor that does not start the input, read with a keyring", "3.C11",
         "Exactly the wrapper obligations that turn openpgp.CheckDetachedSignature's guarantee into the property are decided on every scenario path; the OpenPGP library is trusted."),
 "C12": ("other", AI + " of GetHash / FileHash.Verifier and the verifier it returns / NewHasher and the hasher it returns / the hashing constructors / FileHashFromHasher through the public API, with hash objects as recording oracles and interpreted package initialisers; Read / Write of a hashing stream that is not io.TeeReader / io.MultiWriter interpreted against a scripted stream; field/algorithm table with the algorithm read off an interpreted line parse", "3.C12",
         "Algorithm tables (incl. freshness of hash objects), verifier algorithm choice for every name x hash length, fan-out wiring, byte counting and the Close verdict are decided; the digests themselves are the standard library's."),
 "C13": ("other", AI + " of LoadAr / Ar.Next / the header parser on a symbolic 60 byte header (opaque byte tokens, symbolic sizes, linear offsets), cross-checked (and replaced, when the reader leaves the symbolic model) by interpretation on 247 concrete archives against an ar(5) reference reader (23 member sizes around 512, 1024, 4096 and 8192 bytes, each followed by even and odd sized members in both orders)", "3.C13",
         "Column provenance of every entry field, name trimming, member reader placement, offset arithmetic, freshness, global and header magic, short reads are decided for every header; byte equality of the delivered data rests on io.SectionReader."),
 "C14": ("other", AI + " of the .deb loader on scripted archives: the ar iterator, bufio, the six decompressor constructors, archive/tar, control.Unmarshal and Close are provenance-recording oracles; every iteration order of the member map is explored; decompressor table read from the interpreted package initialiser; LoadFile interpreted with os.Open / Lstat / Stat as oracles", "3.C14",
         "Format checks, codec wiring for all 36 encoding combinations, extension slicing, control lookup, untouched data stream, determinism and index completeness are decided on the scenario family; tar/decompressor behaviour is trusted."),
 "C15": ("other", AI + " of Ar.Next on a symbolic header (progress >= 60 bytes per member with size >= 0 on the path, header magic, short reads), of LoadAr/Next on 247 concrete archives, with a concrete size column against a ReaderAt that ends inside or right after the data (truncated members refused), and of the loader on scripted archives over every map iteration order (loop exit, determinism, error texts included); reachability of fatal exits and unconditional panics (a panic statement behind a guard is decided by the interpreted families, not by reachability); constant-index bounds", "3.C15",
         "Termination bound and consistency clauses are decided for every header and every scripted archive; a member whose recorded size runs past the end of the input is refused (probe-read scenarios); a ReaderAt that changes between Next and the read is not covered."),
 "C16": ("other", AI + " of CheckDebsig on scripted member maps (roles, decoys, both library verdicts) over every map iteration order, with Seek, io.NewSectionReader, io.MultiReader and CheckDetachedSignature as recording oracles (the signed stream is made of readers of the verifier's own over whole members; the shared member readers are never moved); the loader interpreted on the same scenarios", "3.C16",
         "The wrapper obligations that turn the OpenPGP library's guarantee into the property are decided on the scenario family; the library is trusted."),
 "C19": ("other", AI + " of OrderDSCForBuild on exact source descriptions, once with a recording oracle for the topological sorter (every AddEdge/Sort outcome enumerated) and once end to end with the sorter interpreted (returned order checked against the dependency edges; cycle; sources built directly and decoded from .dsc documents, one of them with a Build-Depends line of 5600 bytes; a non-gnu build architecture; three sampled orders for large maps); struct-tag, map-order and package-state rules", "3.C19",
         "Edges per build-dependency field (with C06 selection semantics interpreted, not mocked), edge direction, node-before-edge order, error propagation and result construction are decided; the sorter itself is trusted."),
 "C20": ("other", AI + " of the six upload methods and internal.Copy with every filesystem call replaced by an effect-recording oracle forking into success and failure (Stat / Lstat answers, two file sizes and both orders of two modification times included: success without creating and writing the destination is a violation); the constructors interpreted for the path they record (no symbolic link resolution)", "3.C20",
         "Order of effects (control file last), failure propagation, destination paths, handle update, the handle recording the path the caller gave (no symbolic link resolution), containment of listed names and cleanup after a failed copy are decided on every path of the oracle tree; real filesystem behaviour is not."),
 "C07": ("other", AI + " of ParagraphReader.Next / All with the buffered reader replaced by a scripted oracle over 18 line kinds (all scripts up to length 3, with and without final newline), compared with a deb822 reference model; who-reads rule", "3.C07",
         "The reader's line classification, folding, duplicate handling, EOF handling and the Order/Values invariant are decided for every combination of reader state class and line kind; documents outside the line kinds are not."),
 "C08": ("other", AI + " of Paragraph.WriteTo and of the reader on the text written (line-sequence value table) and on documents read, written and read again, receiver/typestate rules on the encoder, map-order rule", "3.C08",
         "Write/read identity, fixpoint of repeated cycles and absence of blank lines are decided on all values of up to 3 lines over 6 line shapes; one genuine representation gap is a recorded known finding."),
 "C09": ("other", AI + " of control.Marshal and Decoder.Decode end to end on probe struct types built by the checker with go/types, with package reflect replaced by a model over the abstract heap (reflect panics become panic states), writer and reader as oracles; type-level interface table; Update / Set tables", "3.C09",
         "Decode table, decode/marshal/decode identity and text fixpoint, required/omitted handling, merge with the embedded Paragraph and absence of panics are decided on probes covering every supported kind and tag combination; probe values outside the tables are not."),
 "C17": ("other", AI + " of changelog.Parse / ParseOne with a scripted reader (all scripts up to 3 lines over 14 kinds, plus every single-line edit, truncation and missing final newline of well-formed changelogs), compared with a deb-changelog reference model; 31 lines with punctuation out of place must return", "3.C17",
         "Every entry field and the all-or-error verdict are decided on the script family; time.Parse is trusted."),
 "C18": ("other", "global-write scan plus stores into init-time objects recorded by the interpreter, map-order rule, loop classification (counted / range / reader / descent loops; cursor loops backed by the C01 and C04 explorations), index and slice range rules over canonical terms (bounds and their order) with scenario-coverage fallback, reachability of fatal exits, unconditional panics and single-result type assertions (guarded panic statements: by the explorations and hostile documents only), value-xor-error dataflow (path by path where the join hides it)", "3.C18",
         "Shared-state freedom, order independence of map walks, termination of every loop, in-range indexing, absence of fatal exits and of panic states in the explorations, and the value-xor-error convention are decided for the repository's own code; the standard library and data races inside it are not."),
 "C10": ("other", AI + " of Decoder.Decode (reflect model, reader oracle) on a document rendered from a model of every field of each document kind, compared field by field, and of a list of paragraphs element by element; type-level struct-tag tables against Debian field tables; interpreted tables of the line parsers, accessors and ParseControl", "3.C10",
         "For each of the eight document types (and a probe embedding BestChecksums) the decoded value equals the model for a generated document covering every field kind; 116 tag instances and the accessor tables are decided exactly; other document models are not."),
}

not_built = "check not built yet in this commit (work in progress; DESIGN.md section 3 gives the planned static rules)"

def main():
    props = [json.loads(l) for l in open('/verif/properties.jsonl')]
    checks = []
    for pid in sorted(claimed):
        lvl, tech, ref, text = claimed[pid]
        checks.append({
            "property_id": pid,
            "quick_cmd": "./bin/gdsa check %s --tier quick" % pid,
            "thorough_cmd": "./bin/gdsa check %s --tier thorough" % pid,
            "evidence_file": "/verif/evidence/%s.json" % pid,
            "replay_cmd_template": "./bin/gdsa explain {path}",
            "engine": "gdsa",
            "level_claimed": {"category": lvl, "text": text, "design_ref": ref},
            "level_note": "trusted base: go/types + go/ssa (x/tools v0.29.0) represent the source; the specification tables / reference transliteration under /verif/sa; library contracts listed in DESIGN.md section 6",
            "technique": "static analysis: " + tech})
    na = [{"property_id": p["id"], "reason": not_built} for p in props if p["id"] not in claimed]
    m = {"version": 1,
         "setup_cmd": "cd /verif/sa && GOFLAGS=-mod=mod GOPROXY=off GOSUMDB=off GOTOOLCHAIN=local GOWORK=off go build -o /verif/bin/gdsa .",
         "hooks": {"guard": "verif",
                   "enable": "none: the checks are static analyses of /repo's source; nothing in /repo is instrumented or executed",
                   "baseline_off_cmd": "cd /repo && GOFLAGS=-mod=mod GOPROXY=off GOSUMDB=off go test -vet=off -count=1 ./...",
                   "source_commits": [], "add_only": True},
         "engines": [{"name": "gdsa", "path": "/verif/sa", "serves_properties": sorted(claimed),
                      "kind_free_text": "static analyser over go/packages + go/ssa: abstract interpreter with lazily revealed input tapes, product automata, SSA/CFG dominance and dataflow rules, type-level tables"}],
         "checks": checks,
         "notes": "All checks are static analyses (no code of /repo is run). 'fix:' commits in /repo repair the defects the rules reported on the pinned tree; see /verif/known-findings.txt and DESIGN.md section 4."}
    if na:
        m["not_applicable"] = na
    json.dump(m, open('/verif/MANIFEST.json', 'w'), indent=1)
    import jsonschema
    jsonschema.validate(m, json.load(open('/root/.vp/MANIFEST.schema.json')))
    print("MANIFEST ok:", len(checks), "checks,", len(na), "not_applicable")

if __name__ == "__main__":
    main()
