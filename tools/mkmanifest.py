#!/usr/bin/env python3
"""Regenerates /verif/MANIFEST.json from the table below and validates it."""
import json, subprocess, sys

AI = "abstract interpretation over go/ssa"
claimed = {
 "C01": ("proof", AI + ": product automaton of the run comparator with a dpkg reference over lazily revealed input strings; weight table; Compare composition table", "3.C01",
         "Sign-equivalence with a transliteration of dpkg's verrevcmp is decided for ALL pairs of strings over the version alphabet (unbounded length) by exploring the finite product of the two abstract machines; the weight table and Compare's lexicographic composition are decided exhaustively. Proof modulo the trusted base."),
 "C02": ("proof", AI + ": equivalence to a reference total preorder (same product), Compare composition table, sort adapter tables", "3.C02",
         "Reflexivity, antisymmetry, transitivity and congruence are inherited from sign-equality with the reference order (a lexicographic order on canonical keys, hence a total preorder); the adapter methods are decided by interpretation with an oracle for Compare."),
 "C03": ("other", "SSA dominance/path rules over canonical terms (guards, splits, resets), abstractly evaluated character predicates and render tables, codec dataflow, GOARCH=386 width check", "3.C03",
         "Structural necessary conditions, each decided exactly; under the stated library contracts they compose to the round-trip argument of DESIGN 3.C03. Not a proof of the library calls themselves."),
 "C06": ("proof", AI + " on a universe exhaustive by data independence: complete decision tables with callee oracles; loop-shape check for induction over list length", "3.C06",
         "Complete decision tables of Is/IsWildcard/Matches/GetPossibilities/GetAllPossibilities/GetSubstvars/SatisfiedBy against the property's specification, exhaustive up to renaming."),
 "C11": ("other", "SSA dominance and dataflow rules over canonical terms on the clear-sign decoder (must-pass-through of a checked verification, same-block provenance of verified and parsed bytes, who-writes on the signer field, error propagation)", "3.C11",
         "Exactly the wrapper obligations that turn openpgp.CheckDetachedSignature's guarantee into the property are decided; the OpenPGP library is trusted."),
 "C12": ("other", AI + " of GetHash / Verifier / the hashing constructors / verifier.Close with opaque hash objects and interpreted package initialisers; type-level field/algorithm table; term rules on Hasher", "3.C12",
         "Algorithm tables (incl. freshness of hash objects), verifier algorithm choice for every name x hash length, fan-out wiring, byte counting and Close verdict are decided; the digests themselves are the standard library's."),
 "C13": ("other", AI + " of LoadAr / Ar.Next / the header parser on a symbolic 60 byte header (opaque byte tokens, symbolic sizes, linear offsets)", "3.C13",
         "Column provenance of every entry field, name trimming, member reader placement, offset arithmetic, freshness, global and header magic, short reads are decided for every header; byte equality of the delivered data rests on io.SectionReader."),
 "C14": ("other", "SSA dominance rules over canonical terms, decompressor table extraction from the package initialiser, error-discipline and map-order dataflow rules, " + AI + " of IsTarfile", "3.C14",
         "Format checks, codec wiring, extension slicing, control lookup, determinism and index completeness are decided structurally; tar/decompressor behaviour is trusted."),
 "C15": ("other", AI + " of Ar.Next on a symbolic header (progress >= 60 bytes per member with size >= 0 on the path, header magic, short reads) + loop-exit, map-order, fatal-call and bounds rules", "3.C15",
         "Termination bound and consistency clauses decided for every header; delivery of exactly size bytes on truncated input is not decided."),
 "C16": ("other", "SSA term/dataflow rules on CheckDebsig (exact role lookup, ordered MultiReader of rewound members, results unchanged) + shared-selector and map-order rules", "3.C16",
         "The wrapper obligations that turn the OpenPGP library's guarantee into the property are decided; the library is trusted."),
 "C19": ("other", AI + " of OrderDSCForBuild on exact source descriptions with a recording oracle for the topological sorter (every AddEdge/Sort outcome enumerated); struct-tag and map-order rules", "3.C19",
         "Edges per build-dependency field (with C06 selection semantics interpreted, not mocked), edge direction, node-before-edge order, error propagation and result construction are decided; the sorter itself is trusted."),
 "C20": ("other", AI + " of the six upload methods and internal.Copy with every filesystem call replaced by an effect-recording oracle forking into success and failure", "3.C20",
         "Order of effects (control file last), failure propagation, destination paths, handle update, containment of listed names and cleanup after a failed copy are decided on every path of the oracle tree; real filesystem behaviour is not."),
 "C10": ("other", "type-level struct-tag tables against Debian field tables; SSA rules on the list decoder; " + AI + " of line parsers and accessors", "3.C10",
         "116 field instances and the decoder/accessor tables are decided exactly; equality with a document model for every document is not decided."),
}

not_built = "check not built yet in this commit (work in progress; DESIGN.md section 3 gives the planned static rules)"

def main():
    props = [json.loads(l) for l in open('/verif/properties.jsonl')]
    checks = []
    for pid in sorted(claimed):
        lvl, tech, ref, text = claimed[pid]
        checks.append({
            "property_id": pid,
            "quick_cmd": "./bin/gdsa check %s --tier quick" % pid,
            "thorough_cmd": "./bin/gdsa check %s --tier thorough" % pid,
            "evidence_file": "/verif/evidence/%s.json" % pid,
            "replay_cmd_template": "./bin/gdsa explain {path}",
            "engine": "gdsa",
            "level_claimed": {"category": lvl, "text": text, "design_ref": ref},
            "level_note": "trusted base: go/types + go/ssa (x/tools v0.29.0) represent the source; the specification tables / reference transliteration under /verif/sa; library contracts listed in DESIGN.md section 6",
            "technique": "static analysis: " + tech})
    na = [{"property_id": p["id"], "reason": not_built} for p in props if p["id"] not in claimed]
    m = {"version": 1,
         "setup_cmd": "cd /verif/sa && GOFLAGS=-mod=mod GOPROXY=off GOSUMDB=off GOTOOLCHAIN=local GOWORK=off go build -o /verif/bin/gdsa .",
         "hooks": {"guard": "verif",
                   "enable": "none: the checks are static analyses of /repo's source; nothing in /repo is instrumented or executed",
                   "baseline_off_cmd": "cd /repo && GOFLAGS=-mod=mod GOPROXY=off GOSUMDB=off go test -vet=off -count=1 ./...",
                   "source_commits": [], "add_only": True},
         "engines": [{"name": "gdsa", "path": "/verif/sa", "serves_properties": sorted(claimed),
                      "kind_free_text": "static analyser over go/packages + go/ssa: abstract interpreter with lazily revealed input tapes, product automata, SSA/CFG dominance and dataflow rules, type-level tables"}],
         "checks": checks,
         "notes": "All checks are static analyses (no code of /repo is run). 'fix:' commits in /repo repair the defects the rules reported on the pinned tree; see /verif/known-findings.txt and DESIGN.md section 4."}
    if na:
        m["not_applicable"] = na
    json.dump(m, open('/verif/MANIFEST.json', 'w'), indent=1)
    import jsonschema
    jsonschema.validate(m, json.load(open('/root/.vp/MANIFEST.schema.json')))
    print("MANIFEST ok:", len(checks), "checks,", len(na), "not_applicable")

if __name__ == "__main__":
    main()
