#!/usr/bin/env python3
"""Imports the deliverables of one sub-agent round (<dir>/<Cnn>/out/...) into /verif/seeded/<Cnn>-<v> and
/verif/refactorings/<Cnn>-<v>.

usage: import_round.py <dir> <seeds> <refvariant> [ids...]
  <seeds> is either a variant name (the seed is in out/seed) or a comma list outdir=variant,outdir=variant
  e.g.   import_round.py /tmp/r3 3a c            import_round.py /tmp/r4 seedA=4a,seedB=4b d C01 C02
"""
import json, os, shutil, sys

src, sv, rv = sys.argv[1], sys.argv[2], sys.argv[3]
ids = sys.argv[4:] or sorted(os.listdir(src))
seeds = [x.split('=') for x in sv.split(',')] if '=' in sv else [['seed', sv]]
for pid in ids:
    for sdir, svar in seeds:
        s = f'{src}/{pid}/out/{sdir}'
        if all(os.path.exists(f'{s}/{f}') for f in ('patch.diff', 'demo_test.go', 'meta.json')):
            d = f'/verif/seeded/{pid}-{svar}'
            os.makedirs(d, exist_ok=True)
            for f in ('patch.diff', 'demo_test.go', 'meta.json'):
                shutil.copy(f'{s}/{f}', f'{d}/{f}')
            m = json.load(open(f'{d}/meta.json'))
            m['variant'] = svar
            json.dump(m, open(f'{d}/meta.json', 'w'), indent=1)
            print('seed', d)
        else:
            print('seed MISSING', pid, sdir)
    r = f'{src}/{pid}/out/refactor'
    if all(os.path.exists(f'{r}/{f}') for f in ('patch.diff', 'meta.json')):
        d = f'/verif/refactorings/{pid}-{rv}'
        os.makedirs(d, exist_ok=True)
        for f in ('patch.diff', 'meta.json'):
            shutil.copy(f'{r}/{f}', f'{d}/{f}')
        print('refactoring', d)
    else:
        print('refactoring MISSING', pid)
