#!/usr/bin/env python3
"""Imports the deliverables of one sub-agent round (/tmp/r3/<Cnn>/out/{seed,refactor}) into
/verif/seeded/<Cnn>-<v> and /verif/refactorings/<Cnn>-<v>. usage: import_round.py <dir> <seedvariant> <refvariant> [ids...]"""
import json, os, shutil, sys
src, sv, rv = sys.argv[1], sys.argv[2], sys.argv[3]
ids = sys.argv[4:] or sorted(os.listdir(src))
for pid in ids:
    s = f'{src}/{pid}/out/seed'
    if all(os.path.exists(f'{s}/{f}') for f in ('patch.diff', 'demo_test.go', 'meta.json')):
        d = f'/verif/seeded/{pid}-{sv}'
        os.makedirs(d, exist_ok=True)
        for f in ('patch.diff', 'demo_test.go', 'meta.json'):
            shutil.copy(f'{s}/{f}', f'{d}/{f}')
        m = json.load(open(f'{d}/meta.json')); m['variant'] = sv
        json.dump(m, open(f'{d}/meta.json', 'w'), indent=1)
        print('seed', d)
    else:
        print('seed MISSING', pid)
    r = f'{src}/{pid}/out/refactor'
    if all(os.path.exists(f'{r}/{f}') for f in ('patch.diff', 'meta.json')):
        d = f'/verif/refactorings/{pid}-{rv}'
        os.makedirs(d, exist_ok=True)
        for f in ('patch.diff', 'meta.json'):
            shutil.copy(f'{r}/{f}', f'{d}/{f}')
        print('refactoring', d)
    else:
        print('refactoring MISSING', pid)
